(* The float64 computation `int(math.Ceil(math.Sqrt(float64(n))))` used by
   BlobMinSquareSize / square.Size equals the exact integer ceil(sqrt n) of the model
   (Model/Arith.v, ceil_sqrt) for every 0 <= n < 2^52.

   This file (and only this file, with Properties/C15_float.v) uses the real numbers of
   the standard library and Flocq; the axioms of the standard library's Reals therefore
   appear under Print Assumptions.  Nothing is assumed here. *)
From Coq Require Import ZArith NArith Reals Lia Lra Psatz.
From Flocq Require Import Core BinarySingleNaN.
From Flocq Require Binary Bits.
From GS.Model Require Import Base Arith.

Local Open Scope R_scope.

(* binary64: precision 53, minimal exponent -1074, round to nearest, ties to even *)
Definition fexp64 : Z -> Z := FLT_exp (-1074) 53.
Definition rnd64 (x : R) : R := round radix2 fexp64 ZnearestE x.

(* 2^-27 *)
Definition eps27 : R := / 134217728.

Lemma bpow_m27 : bpow radix2 (-27) = eps27.
Proof. reflexivity. Qed.

(* integers below 2^53 in absolute value are binary64 numbers *)
Lemma format64_int m : (Z.abs m < 2 ^ 53)%Z -> generic_format radix2 fexp64 (IZR m).
Proof.
  intros H. apply generic_format_FLT.
  apply (FLT_spec radix2 (-1074) 53 (IZR m) (Float radix2 m 0)).
  - unfold F2R. simpl. ring.
  - simpl Fnum. exact H.
  - simpl. lia.
Qed.

(* for 0 <= k < 2^26, k + 2^-27 is a binary64 number *)
Lemma format64_step k : (0 <= k < 2 ^ 26)%Z -> generic_format radix2 fexp64 (IZR k + eps27).
Proof.
  intros H. apply generic_format_FLT.
  apply (FLT_spec radix2 (-1074) 53 _ (Float radix2 (k * 134217728 + 1) (-27))).
  - unfold F2R. simpl Fnum. simpl Fexp. rewrite bpow_m27, plus_IZR, mult_IZR.
    unfold eps27. field.
  - simpl Fnum. change (Zpower radix2 53) with (2 ^ 53)%Z. lia.
  - simpl. lia.
Qed.

(* the model's ceil_sqrt, read over Z *)
Lemma ceil_sqrt_Z n : (0 <= n)%Z ->
  Z.of_N (ceil_sqrt (Z.to_N n)) =
  (if Z.sqrt n * Z.sqrt n =? n then Z.sqrt n else Z.sqrt n + 1)%Z.
Proof.
  intros Hn. unfold ceil_sqrt. cbv zeta.
  assert (Hs : Z.of_N (N.sqrt (Z.to_N n)) = Z.sqrt n).
  { symmetry. apply Z.sqrt_unique.
    pose proof (N.sqrt_spec (Z.to_N n) (N.le_0_l _)) as Hs. cbv zeta in Hs. lia. }
  destruct (N.eqb_spec (N.sqrt (Z.to_N n) * N.sqrt (Z.to_N n)) (Z.to_N n)) as [E|E];
  destruct (Z.eqb_spec (Z.sqrt n * Z.sqrt n) n) as [F|F].
  - exact Hs.
  - exfalso. apply F. rewrite <- Hs, <- N2Z.inj_mul, E. apply Z2N.id. exact Hn.
  - exfalso. apply E. apply N2Z.inj. rewrite N2Z.inj_mul, Hs, Z2N.id by exact Hn. exact F.
  - rewrite N2Z.inj_add, Hs. reflexivity.
Qed.

(* sqrt of a perfect square *)
Lemma sqrt_IZR_square k : (0 <= k)%Z -> sqrt (IZR (k * k)) = IZR k.
Proof.
  intros Hk. rewrite mult_IZR. apply sqrt_square. apply IZR_le. exact Hk.
Qed.

(* the key separation: for k*k < n the real square root is at least k + 2^-27
   (k < 2^26), because (k + 2^-27)^2 = k^2 + k 2^-26 + 2^-54 < k^2 + 1 *)
Lemma sqrt_gap k n : (0 <= k < 2 ^ 26)%Z -> (k * k < n)%Z ->
  IZR k + eps27 <= sqrt (IZR n).
Proof.
  intros Hk Hn.
  assert (H0 : 0 <= IZR k) by (apply IZR_le; lia).
  assert (H1 : IZR k <= 67108863) by (apply IZR_le; lia).
  assert (H2 : IZR (k * k) + 1 <= IZR n).
  { rewrite <- (plus_IZR _ 1). apply IZR_le. lia. }
  rewrite mult_IZR in H2.
  assert (He : 0 < eps27) by (unfold eps27; lra).
  rewrite <- (sqrt_square (IZR k + eps27)) by lra.
  apply sqrt_le_1_alt.
  unfold eps27 in *. nra.
Qed.

Lemma sqrt_below k n : (0 <= k)%Z -> (n < (k + 1) * (k + 1))%Z ->
  sqrt (IZR n) <= IZR (k + 1).
Proof.
  intros Hk Hn.
  rewrite <- (sqrt_IZR_square (k + 1)) by lia.
  apply sqrt_le_1_alt. apply IZR_le. lia.
Qed.

(* MAIN THEOREM (real-number level).  For every integer 0 <= n <= 2^52 the correctly
   rounded binary64 square root of n, rounded up to an integer, is the exact integer
   ceiling of the square root.  (The bound is tight: see go_ceil_sqrt_wrong_above.) *)
Theorem float_ceil_sqrt_exact n : (0 <= n <= 2 ^ 52)%Z ->
  Zceil (rnd64 (sqrt (IZR n))) = Z.of_N (ceil_sqrt (Z.to_N n)).
Proof.
  intros Hn. rewrite ceil_sqrt_Z by lia.
  pose proof (Z.sqrt_spec n (proj1 Hn)) as Hs. cbv zeta in Hs.
  pose proof (Z.sqrt_nonneg n) as Hk0.
  set (k := Z.sqrt n) in *.
  assert (Hk : (k <= 2 ^ 26)%Z) by nia.
  destruct (Z.eqb_spec (k * k) n) as [E|E].
  - rewrite <- E at 1. rewrite sqrt_IZR_square by exact Hk0.
    unfold rnd64. rewrite round_generic.
    + apply Zceil_IZR.
    + apply valid_rnd_N.
    + apply format64_int. lia.
  - assert (Hk' : (k < 2 ^ 26)%Z) by nia.
    apply Zceil_imp. replace (k + 1 - 1)%Z with k by ring. split.
    + apply Rlt_le_trans with (IZR k + eps27).
      * unfold eps27. lra.
      * unfold rnd64. apply round_ge_generic.
        -- apply FLT_exp_valid. reflexivity.
        -- apply valid_rnd_N.
        -- apply format64_step. lia.
        -- apply sqrt_gap; lia.
    + unfold rnd64. apply round_le_generic.
      * apply FLT_exp_valid. reflexivity.
      * apply valid_rnd_N.
      * apply format64_int. lia.
      * apply sqrt_below; lia.
Qed.

Example float_ceil_sqrt_17 : Zceil (rnd64 (sqrt 17)) = 5%Z.
Proof. exact (float_ceil_sqrt_exact 17 ltac:(lia)). Qed.

(* the corollary the model relies on: the Go expression
   RoundUpPowerOfTwo(int(math.Ceil(math.Sqrt(float64(n))))) is blob_min_square_size *)
Corollary float_min_square_size n : (0 <= n <= 2 ^ 52)%Z ->
  round_up_pow2 (Z.to_N (Zceil (rnd64 (sqrt (IZR n))))) = blob_min_square_size (Z.to_N n).
Proof.
  intros Hn. rewrite float_ceil_sqrt_exact by exact Hn. rewrite N2Z.id. reflexivity.
Qed.

(* ---------------------------------------------------------------------------------- *)
(* The same statement about Flocq's executable IEEE-754 operations (binary64 =
   binary_float 53 1024): integer -> float64 conversion (round to nearest even), Bsqrt,
   round-up-to-integral (math.Ceil), truncation to an integer (Go's int(f)). *)

Definition f64 := binary_float 53 1024.
Global Instance prec64_gt_0 : Prec_gt_0 53 := eq_refl.
Global Instance prec64_lt_emax : Prec_lt_emax 53 1024 := eq_refl.

(* float64(n) *)
Definition f64_of_Z (n : Z) : f64 := binary_normalize 53 1024 _ _ mode_NE n 0 false.
(* int(math.Ceil(math.Sqrt(float64(n)))) *)
Definition go_ceil_sqrt (n : Z) : Z :=
  Btrunc (Bnearbyint mode_UP (Bsqrt mode_NE (f64_of_Z n))).

Lemma fexp64_eq : SpecFloat.fexp 53 1024 = fexp64.
Proof. reflexivity. Qed.

(* the conversion is exact below 2^53 *)
Lemma f64_of_Z_exact n : (Z.abs n < 2 ^ 53)%Z ->
  B2R (f64_of_Z n) = IZR n /\ is_finite (f64_of_Z n) = true /\
  Bsign (f64_of_Z n) = (n <? 0)%Z.
Proof.
  intros Hn. unfold f64_of_Z.
  pose proof (binary_normalize_correct 53 1024 _ _ mode_NE n 0 false) as H. cbv zeta in H.
  assert (Hx : F2R (Float radix2 n 0) = IZR n) by (unfold F2R; simpl; ring).
  rewrite Hx, fexp64_eq in H.
  rewrite round_generic in H; [|apply valid_rnd_round_mode|apply format64_int; exact Hn].
  rewrite Rlt_bool_true in H.
  - destruct H as (H1 & H2 & H3). split; [exact H1|]. split; [exact H2|].
    rewrite H3. destruct (Z.ltb_spec n 0) as [L|L].
    + rewrite Rcompare_Lt; [reflexivity|]. apply IZR_lt. exact L.
    + destruct (Z.eq_dec n 0) as [->|N0].
      * rewrite Rcompare_Eq; reflexivity.
      * rewrite Rcompare_Gt; [reflexivity|]. apply IZR_lt. lia.
  - rewrite <- abs_IZR. apply Rlt_trans with (bpow radix2 53).
    + change (bpow radix2 53) with (IZR (2 ^ 53)). apply IZR_lt. exact Hn.
    + apply bpow_lt. lia.
Qed.

(* Bsqrt on a converted integer is the correctly rounded real square root *)
Lemma Bsqrt_f64_of_Z n : (Z.abs n < 2 ^ 53)%Z ->
  B2R (Bsqrt mode_NE (f64_of_Z n)) = rnd64 (sqrt (IZR n)).
Proof.
  intros Hn. destruct (f64_of_Z_exact n Hn) as (Hv & _).
  destruct (Bsqrt_correct 53 1024 _ _ mode_NE (f64_of_Z n)) as [Hs _].
  rewrite Hv, fexp64_eq in Hs. exact Hs.
Qed.

(* MAIN THEOREM (executable IEEE-754 level) *)
Theorem go_ceil_sqrt_exact n : (0 <= n <= 2 ^ 52)%Z ->
  go_ceil_sqrt n = Z.of_N (ceil_sqrt (Z.to_N n)).
Proof.
  intros Hn. unfold go_ceil_sqrt.
  pose proof (Bsqrt_f64_of_Z n ltac:(lia)) as Hs.
  destruct (Bnearbyint_correct 53 1024 _ mode_UP (Bsqrt mode_NE (f64_of_Z n))) as [Hc _].
  rewrite round_FIX_IZR, Hs in Hc. simpl round_mode in Hc.
  apply eq_IZR. rewrite (Btrunc_correct 53 1024 prec64_lt_emax), Hc, round_FIX_IZR, Ztrunc_IZR.
  rewrite float_ceil_sqrt_exact by exact Hn. reflexivity.
Qed.

(* no NaN / infinity arises on the way (n >= 0) *)
Lemma go_ceil_sqrt_finite n : (0 <= n < 2 ^ 53)%Z ->
  is_finite (Bnearbyint mode_UP (Bsqrt mode_NE (f64_of_Z n))) = true.
Proof.
  intros Hn. destruct (f64_of_Z_exact n ltac:(lia)) as (_ & Hf & Hsg).
  destruct (Bnearbyint_correct 53 1024 _ mode_UP (Bsqrt mode_NE (f64_of_Z n))) as (_ & Hc & _).
  destruct (Bsqrt_correct 53 1024 _ _ mode_NE (f64_of_Z n)) as (_ & Hs & _).
  rewrite Hc, Hs.
  replace (n <? 0)%Z with false in Hsg by (symmetry; apply Z.ltb_ge; lia).
  destruct (f64_of_Z n) as [s|s| |s m e B]; simpl in *; try discriminate; try reflexivity.
  rewrite Hsg. reflexivity.
Qed.

Corollary go_min_square_size n : (0 <= n <= 2 ^ 52)%Z ->
  round_up_pow2 (Z.to_N (go_ceil_sqrt n)) = blob_min_square_size (Z.to_N n).
Proof.
  intros Hn. rewrite go_ceil_sqrt_exact by exact Hn. rewrite N2Z.id. reflexivity.
Qed.

(* concrete runs of the executable float pipeline *)
Example go_ceil_sqrt_17 : go_ceil_sqrt 17 = 5%Z.
Proof. vm_compute. reflexivity. Qed.
Example go_ceil_sqrt_max : go_ceil_sqrt (2 ^ 52 - 1) = (2 ^ 26)%Z.
Proof. vm_compute. reflexivity. Qed.

(* The bound 2^52 is tight: for n = 2^52 + 1 the float computation returns 2^26 although
   ceil(sqrt n) = 2^26 + 1 (sqrt n = 2^26 + 2^-27 - ... rounds down to 2^26). *)
Example go_ceil_sqrt_wrong_above :
  go_ceil_sqrt (2 ^ 52 + 1) = (2 ^ 26)%Z /\
  Z.of_N (ceil_sqrt (Z.to_N (2 ^ 52 + 1))) = (2 ^ 26 + 1)%Z.
Proof. split; vm_compute; reflexivity. Qed.

(* the same, at the level of real numbers *)
Lemma float_ceil_sqrt_wrong_above :
  Zceil (rnd64 (sqrt (IZR (2 ^ 52 + 1)))) = (2 ^ 26)%Z.
Proof.
  rewrite <- (Bsqrt_f64_of_Z (2 ^ 52 + 1)) by (vm_compute; reflexivity).
  replace (Bsqrt mode_NE (f64_of_Z (2 ^ 52 + 1))) with (f64_of_Z (2 ^ 26)).
  - destruct (f64_of_Z_exact (2 ^ 26)) as (Hv & _); [vm_compute; reflexivity|].
    rewrite Hv. apply Zceil_IZR.
  - apply B2SF_inj. vm_compute. reflexivity.
Qed.

(* Flocq's binary64 with NaN payloads (IEEE754.Bits.b64_sqrt): same rounding *)
Lemma b64_sqrt_is_rnd64 (x : Bits.binary64) :
  Binary.B2R 53 1024 (Bits.b64_sqrt mode_NE x) = rnd64 (sqrt (Binary.B2R 53 1024 x)).
Proof.
  unfold Bits.b64_sqrt.
  exact (proj1 (Binary.Bsqrt_correct 53 1024 _ _ _ mode_NE x)).
Qed.
