(* C14 (builder half) - Incremental APIs are history-independent.
   The square finally exported by a builder depends only on the sequence of accepted
   appends, not on exports, range or index queries, or refused appends interleaved
   between them.  Statements only.  (The compact-splitter half of C14 is refuted by
   defect D5 and lives elsewhere.) *)
From Coq Require Import List NArith ZArith Permutation Sorted.
From GS.Model Require Import Base Varint Namespace ShareFmt Blob Sparse Compact Counter Arith Proto Builder.
From GS.Proofs Require Import SortProofs BuilderHistoryProofs.
Import ListNotations.
Open Scope N_scope.

(* ---------- the sort used by Export is THE stable sort by namespace ---------- *)

(* [el_le x y]: the namespace of x is not greater than that of y (bytes.Compare);
   [has_ns ns e]: e's blob has namespace ns.  [sort_elements] returns a sorted
   permutation in which blobs of equal namespace keep their order ... *)
Theorem C14_sort_is_stable_sort : forall l,
  Permutation (sort_elements l) l /\ Sorted el_le (sort_elements l) /\
  (forall ns, filter (has_ns ns) (sort_elements l) = filter (has_ns ns) l).
Proof. exact sort_elements_is_stable_sort. Qed.
Print Assumptions C14_sort_is_stable_sort.

(* ... and that contract (the documented contract of sort.SliceStable) has exactly one
   solution, so modelling sort.SliceStable by insertion sort loses nothing *)
Theorem C14_stable_sort_unique : forall l l',
  Permutation l' l -> Sorted el_le l' ->
  (forall ns, filter (has_ns ns) l' = filter (has_ns ns) l) ->
  l' = sort_elements l.
Proof. exact stable_sort_unique. Qed.
Print Assumptions C14_stable_sort_unique.

(* re-sorting after an export (sorted prefix, then newly appended blobs) gives the
   sort of the original list *)
Theorem C14_sort_sort_app : forall l l',
  sort_elements (sort_elements l ++ l') = sort_elements (l ++ l').
Proof. exact sort_sort_app. Qed.
Print Assumptions C14_sort_sort_app.

Theorem C14_sort_idempotent : forall l, sort_elements (sort_elements l) = sort_elements l.
Proof. exact sort_elements_idem. Qed.
Print Assumptions C14_sort_idempotent.

(* ---------- history independence ---------- *)

(* Histories are lists of [bop] (AppendTx, AppendBlobTx, Export, FindTxShareRange,
   FindBlobStartingIndex, GetWrappedPFB); [brun] executes them with the model functions
   (an append yields the new builder whether accepted or refused, a query yields the
   possibly exported builder); [accepted_of b ops] is the list of appends that were
   accepted during the run. *)
Theorem C14_builder_history_independent : forall max thr ops b1 r1 sq1 b2 r2 sq2,
  brun (empty_builder max thr) ops = Ok b1 -> export b1 = Ok (r1, sq1) ->
  brun (empty_builder max thr) (accepted_of (empty_builder max thr) ops) = Ok b2 ->
  export b2 = Ok (r2, sq2) ->
  sq1 = sq2.
Proof. exact builder_history_independent. Qed.
Print Assumptions C14_builder_history_independent.

(* stronger: the run of the accepted appends alone always succeeds, and its final
   export succeeds exactly when the final export of the full history does, with the
   same square *)
Theorem C14_builder_history_strong : forall max thr ops b1,
  brun (empty_builder max thr) ops = Ok b1 ->
  exists b2, brun (empty_builder max thr) (accepted_of (empty_builder max thr) ops) = Ok b2 /\
    forall sq, (exists r, export b1 = Ok (r, sq)) <-> (exists r, export b2 = Ok (r, sq)).
Proof. exact builder_history_strong. Qed.
Print Assumptions C14_builder_history_strong.

(* most general: histories [grun] in which an export or query may also FAIL and leave
   behind any of the [visited] states (unchanged; exported; blobs sorted in place and
   some recorded indexes overwritten - what a Go Export that returns an error
   part-way leaves), from any start state satisfying the invariant [bcover] (every
   index slot of every wrapper belongs to a blob element) *)
Theorem C14_builder_history_general : forall b0 ops acc b1,
  bcover b0 -> grun b0 ops acc b1 ->
  exists b2, brun b0 acc = Ok b2 /\
    forall sq, (exists r, export b1 = Ok (r, sq)) <-> (exists r, export b2 = Ok (r, sq)).
Proof. exact builder_history_general. Qed.
Print Assumptions C14_builder_history_general.

(* the invariant holds initially and along every run *)
Theorem C14_builder_invariant : forall max thr ops b,
  brun (empty_builder max thr) ops = Ok b -> bcover b.
Proof. exact brun_cover_empty. Qed.
Print Assumptions C14_builder_invariant.

(* ---------- the single steps ---------- *)

Theorem C14_export_idempotent : forall b b' sq b'' sq', bcover b ->
  export b = Ok (b', sq) -> export b' = Ok (b'', sq') -> sq' = sq.
Proof. exact export_idempotent. Qed.
Print Assumptions C14_export_idempotent.

Theorem C14_refused_tx_keeps_square : forall b tx r sq r' sq', bcover b ->
  snd (append_tx b tx) = false ->
  export b = Ok (r, sq) -> export (fst (append_tx b tx)) = Ok (r', sq') -> sq' = sq.
Proof. exact refused_tx_keeps_square. Qed.
Print Assumptions C14_refused_tx_keeps_square.

Theorem C14_refused_blob_tx_keeps_square : forall b t r sq r' sq', bcover b ->
  snd (append_blob_tx b t) = false ->
  export b = Ok (r, sq) -> export (fst (append_blob_tx b t)) = Ok (r', sq') -> sq' = sq.
Proof. exact refused_blob_tx_keeps_square. Qed.
Print Assumptions C14_refused_blob_tx_keeps_square.

Theorem C14_query_keeps_square : forall b o b1 r sq r' sq',
  match o with BTx _ | BBlobTx _ => False | _ => True end ->
  bcover b -> bstep b o = Ok b1 ->
  export b = Ok (r, sq) -> export b1 = Ok (r', sq') -> sq' = sq.
Proof. exact query_keeps_square. Qed.
Print Assumptions C14_query_keeps_square.

(* equivalent builders ([bd_equiv]: same sizes, transactions, wrapper shapes, stable sort of
   the blob list, counter values) make the same accept/refuse decisions *)
Theorem C14_same_decisions : forall b c tx t, bd_equiv b c ->
  snd (append_tx b tx) = snd (append_tx c tx) /\
  snd (append_blob_tx b t) = snd (append_blob_tx c t).
Proof. exact same_decisions. Qed.
Print Assumptions C14_same_decisions.

(* ---------- non-vacuity ---------- *)

Definition ex_ns1 : bytes := repeat Byte.x00 19 ++ repeat Byte.x01 10.
Definition ex_ns2 : bytes := repeat Byte.x00 19 ++ repeat Byte.x02 10.
Definition ex_t1 := mk_btx [Byte.x01] [mk_blob ex_ns2 [Byte.x05; Byte.x06] 0 None].
Definition ex_t2 := mk_btx [Byte.x02] [mk_blob ex_ns1 [Byte.x07] 0 None].
Definition ex_t3 := mk_btx [Byte.x03] [mk_blob ex_ns2 [Byte.x08] 0 None;
                                       mk_blob ex_ns1 (repeat Byte.x09 600) 0 None].
Definition ex_big : bytes := repeat Byte.x01 (N.to_nat 10000).
Definition ex_e := empty_builder 4 64.

Definition squares_equal (a b : list share) : bool :=
  if list_eq_dec (list_eq_dec Byte.byte_eq_dec) a b then true else false.

(* the sort moves the namespace-1 blobs in front and keeps equal namespaces in order *)
Example C14_sort_example :
  let els := elements_of (btx_blobs ex_t1) 0 0 64 ++ elements_of (btx_blobs ex_t2) 1 0 64
             ++ elements_of (btx_blobs ex_t3) 2 0 64 in
  map (fun e => (e_pfb_index e, e_blob_index e)) (sort_elements els) = [(1, 0); (2, 1); (0, 0); (2, 0)].
Proof. vm_compute. reflexivity. Qed.

(* two blob txs in descending namespace order, export, a third, export
   = all three, then export; the intermediate export really reordered the blobs *)
Example C14_builder_example_simple :
  let ops := [BBlobTx ex_t1; BBlobTx ex_t2; BExport; BBlobTx ex_t3] in
  accepted_of ex_e ops = [BBlobTx ex_t1; BBlobTx ex_t2; BBlobTx ex_t3] /\
  match brun ex_e ops, brun ex_e (accepted_of ex_e ops) with
  | Ok b, Ok c =>
    map e_pfb_index (bd_blobs b) = [1; 0; 2; 2] /\ map e_pfb_index (bd_blobs c) = [0; 1; 2; 2] /\
    map pfb_idx (bd_pfbs b) = [[2]; [1]; [16384; 16384]] /\
    match export b, export c with
    | Ok (b', sq), Ok (_, sq') =>
      squares_equal sq sq' = true /\ length sq = 16%nat /\ map pfb_idx (bd_pfbs b') = [[4]; [1]; [5; 2]]
    | _, _ => False
    end
  | _, _ => False
  end.
Proof. vm_compute. repeat split; reflexivity. Qed.

(* a longer history with a normal tx, queries, a refused append (10000 bytes do not
   fit into a 4x4 square) and an export in the middle *)
Definition ex_ops : list bop :=
  [BTx [Byte.x0a]; BBlobTx ex_t1; BFindBlob 1 0; BBlobTx ex_t2; BExport; BTx ex_big; BFindTx 1;
   BBlobTx ex_t3; BWrapped 2; BTx [Byte.x0b]; BFindBlob 4 1].

Example C14_builder_example_history :
  accepted_of ex_e ex_ops = [BTx [Byte.x0a]; BBlobTx ex_t1; BBlobTx ex_t2; BBlobTx ex_t3; BTx [Byte.x0b]] /\
  snd (append_tx ex_e ex_big) = false /\
  match brun ex_e ex_ops, brun ex_e (accepted_of ex_e ex_ops) with
  | Ok b, Ok c =>
    bd_done b = true /\ bd_done c = false /\
    map e_pfb_index (bd_blobs b) = [1; 2; 0; 2] /\ map e_pfb_index (bd_blobs c) = [0; 1; 2; 2] /\
    match export b, export c with
    | Ok (b', sq), Ok (_, sq') =>
      squares_equal sq sq' = true /\ length sq = 16%nat /\ map pfb_idx (bd_pfbs b') = [[5]; [2]; [6; 3]]
    | _, _ => False
    end
  | _, _ => False
  end.
Proof. vm_compute. repeat split; reflexivity. Qed.

(* a query that returns an error stops [brun] (the liberal histories [grun] continue) *)
Example C14_builder_query_error : brun ex_e [BFindTx 0] = Err /\
  grun ex_e [BFindTx 0; BBlobTx ex_t1] [BBlobTx ex_t1] (fst (append_blob_tx ex_e ex_t1)).
Proof.
  split; [vm_compute; reflexivity|].
  change [BBlobTx ex_t1] with (accepted_op ex_e (BFindTx 0) ++ accepted_op ex_e (BBlobTx ex_t1) ++ []) at 2.
  econstructor; [left; reflexivity|]. econstructor; [reflexivity|constructor].
Qed.
