(* C12 / C14 (live builders) - FindTxShareRange and GetWrappedPFB of a LIVE builder are right
   at every point of a history.  Statements only.

   Properties/C12.v says what FindTxShareRange returns on one builder, and what the
   stateless TxShareRange returns (NewBuilder on the list, then the query).
   Properties/C14_builder.v says that the square finally EXPORTED does not depend on the
   exports, queries and refused appends of the history.  Neither says that a query asked
   in the middle of a history - after an export or query has set the builder's [done]
   flag, and after further appends - answers for the builder's CURRENT content.  That is
   stated here.

   Vocabulary (Proofs/BuilderHistoryProofs.v, Proofs/LiveQueryProofs.v):
   - a history is a list of [bop] (AppendTx, AppendBlobTx, Export, FindTxShareRange,
     FindBlobStartingIndex, GetWrappedPFB), run by [brun]; an append yields the new state
     whether it was accepted or refused;
   - [accepted_of e ops] = the appends that were accepted during the run of [ops] from [e];
     [normals_of], [btxs_of] = the ordinary / the blob transactions among them, in order;
   - the CLEAN builder [b0] = the builder that was given the accepted appends only:
     [brun e (accepted_of e ops) = Ok b0] with [accepted_of e acc = acc] (it accepts every
     one of them), never exported;
   - [omap snd] drops the builder state a query returns; outcomes are compared in full
     (a value, Err, or Fault);
   - [linv] = the invariant of live builders.  Its heart is
        bd_done b = true -> Export succeeds on b and records exactly the indexes b holds
     ("a builder that claims to be exported is the exported form of its own content").
     The model's AppendTx / AppendBlobTx reset [bd_done] when they accept (builder.go:
     "b.done = false"); a refused append keeps the flag, reverts the counter and changes
     nothing Export reads.  A builder that does not reset the flag breaks the invariant:
     counter-model at the end of Properties/C04_live.v. *)
From Coq Require Import List NArith ZArith Bool.
From GS.Model Require Import Base Varint Namespace ShareFmt Blob Sparse Compact Counter Arith Proto Builder.
From GS.Proofs Require Import BlobLayoutProofs TxRangeProofs RefinementProofs1 BuilderHistoryProofs LiveQueryProofs.
Import ListNotations.
Open Scope N_scope.

(* ---------- the invariant ---------- *)

Theorem C12_live_invariant : forall max thr ops b,
  brun (empty_builder max thr) ops = Ok b -> linv b.
Proof. exact linv_reachable. Qed.
Print Assumptions C12_live_invariant.

(* in particular: a reachable builder with the flag set is exported - Export on it succeeds
   and records the indexes it already holds, so a query may answer without exporting *)
Theorem C12_live_done_is_exported : forall max thr ops b,
  brun (empty_builder max thr) ops = Ok b -> bd_done b = true ->
  exists b' sq, export b = Ok (b', sq) /\ bd_pfbs b' = bd_pfbs b.
Proof. exact done_builder_is_exported. Qed.
Print Assumptions C12_live_done_is_exported.

(* the single steps: both appends (accepted or refused), Export, and the state a query
   leaves behind keep the invariant *)
Theorem C12_live_invariant_append_tx : forall b tx, linv b -> linv (fst (append_tx b tx)).
Proof. exact linv_append_tx. Qed.
Print Assumptions C12_live_invariant_append_tx.

Theorem C12_live_invariant_append_blob_tx : forall b t, linv b -> linv (fst (append_blob_tx b t)).
Proof. exact linv_append_blob_tx. Qed.
Print Assumptions C12_live_invariant_append_blob_tx.

Theorem C12_live_invariant_export : forall b b' sq, linv b -> export b = Ok (b', sq) -> linv b'.
Proof. exact linv_export. Qed.
Print Assumptions C12_live_invariant_export.

Theorem C12_live_invariant_step : forall b o b', linv b -> bstep b o = Ok b' -> linv b'.
Proof. exact linv_bstep. Qed.
Print Assumptions C12_live_invariant_step.

(* ---------- the clean builder ---------- *)

(* it exists, accepted every append it was given, consists of appends only, was never
   exported, and is equivalent ([bd_equiv]) to the live builder *)
Theorem C12_live_clean_builder : forall max thr ops b,
  brun (empty_builder max thr) ops = Ok b ->
  let acc := accepted_of (empty_builder max thr) ops in
  exists b0, brun (empty_builder max thr) acc = Ok b0 /\
    accepted_of (empty_builder max thr) acc = acc /\
    Forall is_append acc /\ bd_done b0 = false /\ bd_equiv b b0.
Proof. exact clean_builder. Qed.
Print Assumptions C12_live_clean_builder.

(* ---------- the queries ---------- *)

(* general form: a builder satisfying the invariant answers like ANY equivalent builder
   that is not exported *)
Theorem C12_live_tx_range_equiv : forall b c ti, linv b -> bd_equiv b c -> bd_done c = false ->
  omap snd (find_tx_share_range b ti) = omap snd (find_tx_share_range c ti).
Proof. exact find_tx_share_range_live. Qed.
Print Assumptions C12_live_tx_range_equiv.

Theorem C12_live_wrapped_pfb_equiv : forall b c ti, linv b -> bd_equiv b c -> bd_done c = false ->
  omap snd (get_wrapped_pfb b ti) = omap snd (get_wrapped_pfb c ti).
Proof. exact get_wrapped_pfb_live. Qed.
Print Assumptions C12_live_wrapped_pfb_equiv.

(* MAIN: at every point of every history, the live builder holds the accepted transactions
   (same ordinary transactions, same inner transactions of the wrappers) and
   FindTxShareRange / GetWrappedPFB return, for EVERY index, exactly what they return on
   the clean builder: the same range / the same wrapper with the same recorded share
   indexes, or the same error *)
Theorem C12_live_tx_queries : forall max thr ops b,
  brun (empty_builder max thr) ops = Ok b ->
  let acc := accepted_of (empty_builder max thr) ops in
  exists b0, brun (empty_builder max thr) acc = Ok b0 /\
    accepted_of (empty_builder max thr) acc = acc /\
    bd_txs b = bd_txs b0 /\ map pfb_tx (bd_pfbs b) = map pfb_tx (bd_pfbs b0) /\
    (forall ti, omap snd (find_tx_share_range b ti) = omap snd (find_tx_share_range b0 ti)) /\
    (forall ti, omap snd (get_wrapped_pfb b ti) = omap snd (get_wrapped_pfb b0 ti)).
Proof. exact live_tx_queries. Qed.
Print Assumptions C12_live_tx_queries.

(* closed form: the live answer is the exact range ([builder_tx_range], characterised as a
   set of shares in Properties/C12.v) in the exported clean builder, i.e. in the square of
   the accepted transactions *)
Theorem C12_live_tx_range_closed : forall max thr ops b ti,
  brun (empty_builder max thr) ops = Ok b ->
  exists b0, brun (empty_builder max thr) (accepted_of (empty_builder max thr) ops) = Ok b0 /\
    omap snd (find_tx_share_range b ti) =
    do r <- export b0;
    if ((ti <? 0) || (Z.of_nat (length (bd_txs (fst r)) + length (bd_pfbs (fst r))) <=? ti))%Z then Err
    else Ok (zpair (builder_tx_range (fst r) (Z.to_nat ti))).
Proof. exact live_tx_range_closed. Qed.
Print Assumptions C12_live_tx_range_closed.

(* MAIN, stateless form: the live answer equals square.TxShareRange over the accepted
   transactions as raw bytes - ordinary transactions first, then the blob transactions
   ([braws]: any byte strings decoding to them, e.g. MarshalBlobTx's output).  Hypotheses:
   threshold >= 1, a legal maximum size, blobs NewBlob accepts in blob namespaces with
   data + signer below 4 GiB ([c07_btx_ok]), ordinary transactions that do not decode as
   blob transactions. *)
Theorem C12_live_tx_share_range_stateless : forall max thr ops b braws,
  1 <= thr -> new_builder_ok (Z.of_N max) = true ->
  brun (empty_builder max thr) ops = Ok b ->
  let acc := accepted_of (empty_builder max thr) ops in
  Forall c07_btx_ok (btxs_of acc) ->
  Forall (fun r => unmarshal_blob_tx r = UbtNot) (normals_of acc) ->
  Forall2 (fun r t => unmarshal_blob_tx r = UbtOk t) braws (btxs_of acc) ->
  bd_txs b = normals_of acc /\ map pfb_tx (bd_pfbs b) = map btx_tx (btxs_of acc) /\
  forall ti, live_tx_share_range b ti = tx_share_range (normals_of acc ++ braws) ti (Z.of_N max) thr.
Proof. exact live_stateless_tx. Qed.
Print Assumptions C12_live_tx_share_range_stateless.

(* [live_tx_share_range] is FindTxShareRange without the returned state, and TxShareRange
   is NewBuilder followed by it *)
Theorem C12_live_tx_share_range_def : forall b ti,
  live_tx_share_range b ti = omap snd (find_tx_share_range b ti).
Proof. exact live_tx_share_range_omap. Qed.
Print Assumptions C12_live_tx_share_range_def.

Theorem C12_tx_share_range_unfold : forall txs ti max thr,
  tx_share_range txs ti max thr = do b <- new_builder_txs max thr txs; live_tx_share_range b ti.
Proof. exact tx_share_range_unfold. Qed.
Print Assumptions C12_tx_share_range_unfold.

(* ---------- non-vacuity: a concrete history ---------- *)
(* maximum side 8, threshold 1 (definitions [lx_*] in Proofs/LiveQueryProofs.v):
     lx_ops1 = AppendBlobTx (one 100-byte blob); FindBlobStartingIndex 0 0
     lx_ops2 = lx_ops1; AppendTx of 40000 bytes      (refused: 84 shares > 8 * 8)
     lx_ops3 = lx_ops2; AppendTx of 600 bytes        (accepted: two compact shares)
     lx_ops4 = lx_ops3; FindTxShareRange 0; GetWrappedPFB 1 *)

(* the hypotheses of the stateless theorem hold at all four points *)
Example C12_live_example_hyps : forall ops, In ops [lx_ops1; lx_ops2; lx_ops3; lx_ops4] ->
  1 <= 1 /\ new_builder_ok (Z.of_N 8) = true /\ is_ok (brun lx_e ops) = true /\
  Forall c07_btx_ok (btxs_of (accepted_of lx_e ops)) /\
  Forall (fun r => unmarshal_blob_tx r = UbtNot) (normals_of (accepted_of lx_e ops)) /\
  Forall2 (fun r t => unmarshal_blob_tx r = UbtOk t) [lx_raw] (btxs_of (accepted_of lx_e ops)).
Proof. exact lx_hyps. Qed.

Example C12_live_example_accepted :
  accepted_of lx_e lx_ops1 = [BBlobTx lx_btx] /\ accepted_of lx_e lx_ops2 = [BBlobTx lx_btx] /\
  accepted_of lx_e lx_ops3 = [BBlobTx lx_btx; BTx lx_t600] /\
  accepted_of lx_e lx_ops4 = [BBlobTx lx_btx; BTx lx_t600].
Proof. exact lx_accepted. Qed.

(* after the first query the flag is set; the refused append keeps it, and the PFB is in
   share [0, 1) - live and stateless;
   the accepted append resets it: the 600-byte transaction takes shares [0, 2), the PFB
   moves to [2, 3) - live and stateless; the wrapper now records blob index 3 (it was 1) *)
Example C12_live_example_ranges :
  match brun lx_e lx_ops1, brun lx_e lx_ops2, brun lx_e lx_ops3, brun lx_e lx_ops4 with
  | Ok b1, Ok b2, Ok b3, Ok b4 =>
    bd_done b1 = true /\ bd_done b2 = true /\ bd_done b3 = false /\ bd_done b4 = true /\
    live_tx_share_range b1 0 = Ok (0, 1)%Z /\ tx_share_range [lx_raw] 0 8 1 = Ok (0, 1)%Z /\
    live_tx_share_range b2 0 = Ok (0, 1)%Z /\ live_tx_share_range b2 1 = Err /\
    tx_share_range [lx_raw] 1 8 1 = Err /\
    omap (fun r => pfb_idx (snd r)) (get_wrapped_pfb b2 0) = Ok [1] /\
    live_tx_share_range b3 0 = Ok (0, 2)%Z /\ tx_share_range [lx_t600; lx_raw] 0 8 1 = Ok (0, 2)%Z /\
    live_tx_share_range b3 1 = Ok (2, 3)%Z /\ tx_share_range [lx_t600; lx_raw] 1 8 1 = Ok (2, 3)%Z /\
    live_tx_share_range b4 1 = Ok (2, 3)%Z /\ live_tx_share_range b4 2 = Err /\
    omap (fun r => pfb_idx (snd r)) (get_wrapped_pfb b3 1) = Ok [3] /\
    omap (fun r => pfb_idx (snd r)) (get_wrapped_pfb b4 1) = Ok [3]
  | _, _, _, _ => False
  end.
Proof. vm_compute. repeat split; reflexivity. Qed.

(* the same through the theorem: instantiating the stateless theorem at the third point *)
Example C12_live_example_theorem : forall b3, brun lx_e lx_ops3 = Ok b3 ->
  forall ti, live_tx_share_range b3 ti = tx_share_range [lx_t600; lx_raw] ti 8 1.
Proof.
  intros b3 H.
  destruct (lx_hyps lx_ops3 (or_intror (or_intror (or_introl eq_refl)))) as (H1 & H2 & _ & H4 & H5 & H6).
  destruct (live_stateless_tx 8 1 lx_ops3 b3 [lx_raw] H1 H2 H H4 H5 H6) as (_ & _ & H9).
  destruct lx_accepted as (_ & _ & A3 & _). unfold lx_e in A3. rewrite A3 in H9. exact H9.
Qed.
Print Assumptions C12_live_example_theorem.

(* ---------- liberal histories: exports and queries that return an error ---------- *)
(* [brun] ends at the first export or query that returns an error, because the model
   functions then return no builder; the Go builder lives on.  [lrun] continues: after an
   Export or a query the builder is unchanged, or exported (the error came after the
   export inside the query), or - only if its flag was not set - partly exported
   ([failed_export]: blobs sorted in place, some indexes overwritten, flag still unset).
   The theorem holds for these histories as well. *)
Theorem C12_live_liberal_histories : forall max thr ops acc b,
  lrun (empty_builder max thr) ops acc b ->
  exists b0, brun (empty_builder max thr) acc = Ok b0 /\
    accepted_of (empty_builder max thr) acc = acc /\
    linv b /\ bd_done b0 = false /\ bd_equiv b b0 /\
    (forall ti, omap snd (find_tx_share_range b ti) = omap snd (find_tx_share_range b0 ti)) /\
    (forall pi bi, omap snd (find_blob_starting_index b pi bi) = omap snd (find_blob_starting_index b0 pi bi)) /\
    (forall pi bi, blob_share_length b pi bi = blob_share_length b0 pi bi) /\
    (forall ti, omap snd (get_wrapped_pfb b ti) = omap snd (get_wrapped_pfb b0 ti)) /\
    (forall pi bi, live_blob_share_range b pi bi = live_blob_share_range b0 pi bi).
Proof. exact live_queries_liberal. Qed.
Print Assumptions C12_live_liberal_histories.

Theorem C12_live_brun_is_liberal : forall ops b b',
  brun b ops = Ok b' -> lrun b ops (accepted_of b ops) b'.
Proof. exact brun_lrun. Qed.
Print Assumptions C12_live_brun_is_liberal.

(* a liberal history that is not a [brun] history: FindTxShareRange 5 exports and THEN
   reports that index 5 is out of range; the builder is left exported with the flag set;
   the 600-byte transaction is appended to that state *)
Definition lx_b1 : builder := fst (append_blob_tx lx_e lx_btx).
Definition lx_b1x : builder := match export lx_b1 with Ok (b', _) => b' | _ => lx_b1 end.

Example C12_live_example_liberal :
  brun lx_e [BBlobTx lx_btx; BFindTx 5; BTx lx_t600] = Err /\
  bd_done lx_b1 = false /\ bd_done lx_b1x = true /\
  lrun lx_e [BBlobTx lx_btx; BFindTx 5; BTx lx_t600] [BBlobTx lx_btx; BTx lx_t600]
       (fst (append_tx lx_b1x lx_t600)) /\
  live_blob_share_range (fst (append_tx lx_b1x lx_t600)) 1 0 = Ok (3, 4).
Proof.
  split; [vm_compute; reflexivity|]. split; [vm_compute; reflexivity|]. split; [vm_compute; reflexivity|].
  split; [|vm_compute; reflexivity].
  assert (E : [BBlobTx lx_btx; BTx lx_t600] =
              accepted_op lx_e (BBlobTx lx_btx) ++ accepted_op lx_b1 (BFindTx 5) ++
              accepted_op lx_b1x (BTx lx_t600) ++ []) by (vm_compute; reflexivity).
  rewrite E. clear E. econstructor; [reflexivity|]. econstructor; [|econstructor; [reflexivity|constructor]].
  right. left. unfold lx_b1x.
  assert (Hok : is_ok (export lx_b1) = true) by (vm_compute; reflexivity).
  destruct (export lx_b1) as [[b' sq]| |]; [|discriminate Hok|discriminate Hok]. exists sq. reflexivity.
Qed.
