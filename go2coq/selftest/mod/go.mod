module t

go 1.23
