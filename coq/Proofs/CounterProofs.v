(* C13: the compact share counter equals the closed form over all add/revert
   histories; the shares-needed and available-bytes functions are exact inverses. *)
From Coq Require Import List NArith ZArith Lia Bool.
From Coq Require Import ZifyN ZifyNat ZifyBool.
From GS.Model Require Import Base Varint Counter.
Import ListNotations.

Ltac Zify.zify_post_hook ::= Z.div_mod_to_equations.

Ltac bool_cases := repeat match goal with
  | |- context [if ?b then _ else _] => let E := fresh "E" in destruct b eqn:E
  end.

Open Scope Z_scope.

(* the counter fields that encode a delimited stream of L bytes *)
Definition enc_shares (L : Z) : Z := if L <? 474 then 0 else 1 + (L - 474) / 478.
Definition enc_rem (L : Z) : Z := if L <? 474 then L else (L - 474) mod 478.

(* closed-form share count of a stream of L bytes, on Z *)
Definition needed_z (L : Z) : Z :=
  if L <=? 0 then 0 else if L <? 474 then 1
  else 1 + (L - 474) / 478 + (if 0 <? (L - 474) mod 478 then 1 else 0).

Lemma needed_z_enc L : 0 <= L ->
  (if enc_rem L =? 0 then enc_shares L else enc_shares L + 1) = needed_z L.
Proof.
  intros HL. unfold enc_rem, enc_shares, needed_z.
  destruct (L <? 474) eqn:E1; destruct (L <=? 0) eqn:E2; try lia.
  - replace (L =? 0) with true by lia. reflexivity.
  - replace (L =? 0) with false by lia. reflexivity.
  - destruct ((L - 474) mod 478 =? 0) eqn:E3; destruct (0 <? (L - 474) mod 478) eqn:E4; lia.
Qed.

Lemma needed_z_compact (n : N) : needed_z (Z.of_N n) = Z.of_N (compact_shares_needed n).
Proof.
  unfold needed_z, compact_shares_needed.
  destruct (n =? 0)%N eqn:E1.
  - replace (Z.of_N n <=? 0) with true by lia. reflexivity.
  - replace (Z.of_N n <=? 0) with false by lia.
    destruct (n <? 474)%N eqn:E2.
    + replace (Z.of_N n <? 474) with true by lia. reflexivity.
    + replace (Z.of_N n <? 474) with false by lia.
      destruct (0 <? (n - 474) mod 478)%N eqn:E3; destruct (0 <? (Z.of_N n - 474) mod 478) eqn:E4; lia.
Qed.

(* one Add: from a state encoding L to the state encoding L + d, d the delimited length *)
Lemma counter_add_enc c L n :
  0 <= L -> 0 <= n ->
  c_shares c = enc_shares L -> c_rem c = enc_rem L ->
  let d := n + Z.of_N (delim_len (Z.to_N n)) in
  let c' := fst (counter_add c n) in
  c_shares c' = enc_shares (L + d) /\ c_rem c' = enc_rem (L + d) /\
  c_last_shares c' = c_shares c /\ c_last_rem c' = c_rem c /\
  snd (counter_add c n) = needed_z (L + d) - needed_z L.
Proof.
  intros HL Hn Hs Hr. cbn zeta.
  assert (Hd : 0 <= Z.of_N (delim_len (Z.to_N n))) by lia.
  unfold counter_add.
  set (d := n + Z.of_N (delim_len (Z.to_N n))) in *.
  assert (Hd0 : 0 <= d) by lia. clearbody d. clear Hd.
  rewrite <- !needed_z_enc by lia.
  rewrite Hs, Hr. unfold enc_shares, enc_rem.
  destruct (L <? 474) eqn:E1.
  - (* still in the first share *)
    replace (0 =? 0) with true by reflexivity.
    destruct (474 - L <=? d) eqn:E2.
    + replace (L + d <? 474) with false by lia.
      destruct (478 - 0 <=? d - (474 - L)) eqn:E3.
      * destruct (0 <? d - (474 - L) - (478 - 0)) eqn:E4; cbn [fst snd c_shares c_rem c_last_shares c_last_rem].
        -- repeat split; try lia. bool_cases; lia.
        -- assert (d - (474 - L) = 478) by lia.
           replace (L + d - 474) with 478 by lia. change (478 / 478) with 1. change (478 mod 478) with 0.
           repeat split; try lia. bool_cases; lia.
      * replace (0 <? 0) with false by reflexivity. cbn [fst snd c_shares c_rem c_last_shares c_last_rem].
        assert (0 <= d - (474 - L) < 478) by lia.
        replace ((L + d - 474) / 478) with 0 by (symmetry; apply Z.div_small; lia).
        replace ((L + d - 474) mod 478) with (L + d - 474) by (symmetry; apply Z.mod_small; lia).
        repeat split; try lia. bool_cases; lia.
    + replace (L + d <? 474) with true by lia.
      replace (478 - (L + d) <=? 0) with false by lia.
      replace (0 <? 0) with false by reflexivity. cbn [fst snd c_shares c_rem c_last_shares c_last_rem].
      repeat split; try lia. bool_cases; lia.
  - (* continuation shares *)
    assert (Hm : 0 <= (L - 474) mod 478 < 478) by (apply Z.mod_pos_bound; lia).
    assert (Hq : 0 <= (L - 474) / 478) by (apply Z.div_pos; lia).
    replace (1 + (L - 474) / 478 =? 0) with false by lia.
    replace (L + d <? 474) with false by lia.
    set (q := (L - 474) / 478) in *. set (r := (L - 474) mod 478) in *.
    assert (HL' : L - 474 = 478 * q + r) by (unfold q, r; apply Z.div_mod; lia).
    destruct (478 - r <=? d) eqn:E2.
    + destruct (0 <? d - (478 - r)) eqn:E3; cbn [fst snd c_shares c_rem c_last_shares c_last_rem].
      * assert (H1 : (L + d - 474) = 478 * (q + 1) + (d - (478 - r))) by lia.
        assert (H2 : (L + d - 474) / 478 = q + 1 + (d - (478 - r)) / 478).
        { rewrite H1. rewrite Z.mul_comm, Z.div_add_l by lia. reflexivity. }
        assert (H3 : (L + d - 474) mod 478 = (d - (478 - r)) mod 478).
        { rewrite H1. rewrite Z.mul_comm, Z.add_comm, Z.mod_add by lia. reflexivity. }
        rewrite H2, H3. repeat split; try lia. bool_cases; lia.
      * assert (d = 478 - r) by lia.
        assert (H1 : L + d - 474 = 478 * (q + 1)) by lia.
        rewrite H1. rewrite Z.mul_comm, Z.div_mul, Z.mod_mul by lia.
        repeat split; try lia. bool_cases; lia.
    + replace (0 <? 0) with false by reflexivity. cbn [fst snd c_shares c_rem c_last_shares c_last_rem].
      assert (H1 : L + d - 474 = 478 * q + (r + d)) by lia.
      assert (H2 : (L + d - 474) / 478 = q).
      { rewrite H1. rewrite Z.mul_comm, Z.div_add_l by lia. rewrite (Z.div_small (r + d)) by lia. lia. }
      assert (H3 : (L + d - 474) mod 478 = r + d).
      { rewrite H1. rewrite Z.mul_comm, Z.add_comm, Z.mod_add by lia. apply Z.mod_small. lia. }
      rewrite H2, H3. repeat split; try lia. bool_cases; lia.
Qed.

(* ---- histories ---- *)
Inductive cop := CAdd (n : Z) | CRevert.

(* the abstract state: (delimited length of the surviving adds, length before the last add) *)
Definition spec_step (s : Z * Z) (o : cop) : Z * Z :=
  match o with
  | CAdd n => (fst s + n + Z.of_N (delim_len (Z.to_N n)), fst s)
  | CRevert => (snd s, snd s)
  end.
Definition model_step (c : counter) (o : cop) : counter :=
  match o with
  | CAdd n => fst (counter_add c n)
  | CRevert => counter_revert c
  end.

Definition encodes (c : counter) (s : Z * Z) : Prop :=
  0 <= fst s /\ 0 <= snd s /\
  c_shares c = enc_shares (fst s) /\ c_rem c = enc_rem (fst s) /\
  c_last_shares c = enc_shares (snd s) /\ c_last_rem c = enc_rem (snd s).

Definition op_ok (o : cop) : Prop := match o with CAdd n => 0 <= n | CRevert => True end.

Lemma model_step_encodes c s o : op_ok o -> encodes c s -> encodes (model_step c o) (spec_step s o).
Proof.
  intros Ho (H1 & H2 & H3 & H4 & H5 & H6). destruct o as [n|]; cbn [model_step spec_step op_ok] in *.
  - destruct (counter_add_enc c (fst s) n H1 Ho H3 H4) as (A & B & C & D & _).
    unfold encodes. cbn [fst snd].
    replace (fst s + n + Z.of_N (delim_len (Z.to_N n))) with (fst s + (n + Z.of_N (delim_len (Z.to_N n)))) by lia.
    rewrite C, D. repeat split; try lia; assumption.
  - unfold encodes, counter_revert. cbn [fst snd c_shares c_rem c_last_shares c_last_rem]. repeat split; assumption.
Qed.

Lemma encodes_init : encodes new_counter (0, 0).
Proof. unfold encodes. cbn. repeat split; lia. Qed.

(* Every reachable state of the counter encodes the surviving length: its size is
   the closed-form share count and its remainder the in-share remainder. *)
Theorem counter_history ops : Forall op_ok ops ->
  let c := fold_left model_step ops new_counter in
  let s := fold_left spec_step ops (0, 0) in
  0 <= fst s /\
  counter_size c = needed_z (fst s) /\
  counter_remainder c = enc_rem (fst s).
Proof.
  intros Hops. cbn zeta.
  assert (H : encodes (fold_left model_step ops new_counter) (fold_left spec_step ops (0, 0))).
  { generalize encodes_init. generalize new_counter, (0, 0).
    induction ops as [|o ops IH]; intros c s He; [exact He|].
    inversion Hops; subst. cbn [fold_left]. apply IH; [assumption|].
    apply model_step_encodes; assumption. }
  destruct H as (H1 & H2 & H3 & H4 & _). split; [exact H1|].
  unfold counter_size, counter_remainder. rewrite H3, H4. split; [|reflexivity].
  apply needed_z_enc. exact H1.
Qed.

(* each Add returns the increment of the closed-form share count *)
Theorem counter_add_increment ops n : Forall op_ok ops -> 0 <= n ->
  let c := fold_left model_step ops new_counter in
  let s := fold_left spec_step ops (0, 0) in
  snd (counter_add c n) = needed_z (fst (spec_step s (CAdd n))) - needed_z (fst s).
Proof.
  intros Hops Hn. cbn zeta.
  assert (H : encodes (fold_left model_step ops new_counter) (fold_left spec_step ops (0, 0))).
  { generalize encodes_init. generalize new_counter, (0, 0).
    induction ops as [|o ops IH]; intros c s He; [exact He|].
    inversion Hops; subst. cbn [fold_left]. apply IH; [assumption|].
    apply model_step_encodes; assumption. }
  destruct H as (H1 & H2 & H3 & H4 & _).
  destruct (counter_add_enc _ _ n H1 Hn H3 H4) as (_ & _ & _ & _ & E).
  rewrite E. cbn [spec_step fst]. f_equal. f_equal. lia.
Qed.

(* the increment is never negative *)
Lemma needed_z_mono a b : 0 <= a <= b -> needed_z a <= needed_z b.
Proof.
  intros H. unfold needed_z. bool_cases; lia.
Qed.

(* ---- closed forms and their inverses ---- *)
Open Scope N_scope.

Theorem compact_needed_least n :
  (Z.of_N n <= available_compact (Z.of_N (compact_shares_needed n)))%Z /\
  (compact_shares_needed n = 0%N \/ available_compact (Z.of_N (compact_shares_needed n) - 1) < Z.of_N n)%Z.
Proof.
  unfold compact_shares_needed, available_compact.
  bool_cases; (split; [lia | first [left; lia | right; lia]]).
Qed.

Theorem sparse_needed_least n :
  (Z.of_N n <= available_sparse (Z.of_N (sparse_shares_needed n)))%Z /\
  (sparse_shares_needed n = 0%N \/ available_sparse (Z.of_N (sparse_shares_needed n) - 1) < Z.of_N n)%Z.
Proof.
  unfold sparse_shares_needed, available_sparse.
  bool_cases; (split; [lia | first [left; lia | right; lia]]).
Qed.

(* n shares hold exactly available(n) bytes; one more byte needs n+1 shares *)
Theorem compact_available_exact k : (1 <= k)%Z ->
  compact_shares_needed (Z.to_N (available_compact k)) = Z.to_N k /\
  compact_shares_needed (Z.to_N (available_compact k) + 1) = Z.to_N k + 1.
Proof.
  intros Hk. unfold available_compact.
  destruct (k <=? 0)%Z eqn:E0; [lia|]. destruct (k =? 1)%Z eqn:E1; unfold compact_shares_needed; bool_cases; lia.
Qed.

Theorem sparse_available_exact k : (1 <= k)%Z ->
  sparse_shares_needed (Z.to_N (available_sparse k)) = Z.to_N k /\
  sparse_shares_needed (Z.to_N (available_sparse k) + 1) = Z.to_N k + 1.
Proof.
  intros Hk. unfold available_sparse.
  destruct (k <=? 0)%Z eqn:E0; [lia|]. destruct (k =? 1)%Z eqn:E1; unfold sparse_shares_needed; bool_cases; lia.
Qed.

(* non-vacuity: a history with a revert after an add, ending mid-share *)
Example history_example :
  let ops := [CAdd 470; CAdd 10; CRevert; CAdd 1000]%Z in
  Forall op_ok ops /\ fold_left spec_step ops (0, 0)%Z = (1474, 472)%Z /\
  counter_size (fold_left model_step ops new_counter) = 4%Z.
Proof. cbn zeta. split; [repeat constructor; cbn; lia|]. split; vm_compute; reflexivity. Qed.
