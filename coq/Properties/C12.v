(* C12 - Transaction and blob share ranges are exact.
   Statements only.

   Vocabulary (Proofs/TxRangeProofs.v, Spec/CompactSpec.v, Spec/ShareSpec.v):
   - [stream txs] is the byte stream of the length-prefixed transactions; share j of a
     compact sequence carries exactly the stream bytes [coff j, coff j + ccap j)
     (coff 0 = 0, ccap 0 = 474, coff (S k) = 474 + 478 k, ccap (S k) = 478);
   - [sidx p] = share index of stream offset p;
   - [ustart txs k], [uend txs k] = stream offsets of the first byte of unit k and of the
     first byte after it; [unit_range txs k] = (sidx start, sidx (end - 1) + 1);
   - [wrapped pfbs] = the wrapped PFBs as Export writes them (real share indexes);
   - [builder_tx_range b k] = unit_range over the tx sequence for ordinary transactions,
     over the PFB sequence shifted by the number of tx shares for blob transactions;
   - [ensure_done b] = "Export unless already exported", the first step of the queries. *)
From Coq Require Import List Arith NArith ZArith Bool.
From GS.Model Require Import Base Varint Namespace ShareFmt Blob Sparse Compact Counter Arith Proto Builder.
From GS.Spec Require Import ShareSpec CompactSpec.
From GS.Proofs Require Import CounterProofs TxRangeProofs.
Import ListNotations.
Open Scope nat_scope.

(* ---- the set characterisation ---- *)

(* sidx p is the unique share carrying stream byte p *)
Theorem C12_sidx_bounds : forall p, coff (sidx p) <= p < coff (sidx p) + ccap (sidx p).
Proof. exact sidx_bounds. Qed.
Print Assumptions C12_sidx_bounds.

Theorem C12_sidx_unique : forall p j, coff j <= p < coff j + ccap j -> j = sidx p.
Proof. exact sidx_unique. Qed.
Print Assumptions C12_sidx_unique.

(* stream byte p is byte p - coff j of the chunk carried by share j (CompactSpec.cchunk) *)
Theorem C12_chunk_carries : forall j s p, coff j <= p < coff j + ccap j ->
  nth_error (cchunk j s) (p - coff j) = nth_error s p.
Proof. exact cchunk_nth. Qed.
Print Assumptions C12_chunk_carries.

(* the shares that contain at least one byte of a non-empty stream interval [s, e) *)
Theorem C12_share_set_exact : forall s e j, s < e ->
  (exists p, s <= p < e /\ coff j <= p < coff j + ccap j) <-> sidx s <= j < sidx (e - 1) + 1.
Proof. exact share_set_exact. Qed.
Print Assumptions C12_share_set_exact.

(* [ustart] is the k-th start offset of the closed form, and [ustart, uend) holds exactly
   the length-prefixed transaction k *)
Theorem C12_ustart_is_spec_start : forall txs off k, k < length txs ->
  nth_error (ustarts off (units txs)) k = Some (off + ustart txs k).
Proof. exact ustarts_nth. Qed.
Print Assumptions C12_ustart_is_spec_start.

Theorem C12_unit_bytes : forall txs k t, nth_error txs k = Some t ->
  firstn (uend txs k - ustart txs k) (skipn (ustart txs k) (stream txs)) = marshal_delimited t.
Proof. exact unit_bytes. Qed.
Print Assumptions C12_unit_bytes.

(* unit_range is exactly the set of shares carrying a byte of unit k *)
Theorem C12_unit_range_exact : forall txs k t j, nth_error txs k = Some t ->
  (exists p, ustart txs k <= p < uend txs k /\ coff j <= p < coff j + ccap j) <->
  fst (unit_range txs k) <= j < snd (unit_range txs k).
Proof. exact unit_range_exact. Qed.
Print Assumptions C12_unit_range_exact.

(* ---- the counter arithmetic, including the remainder == 0 branch ---- *)
Theorem C12_counter_range_core : forall c L t, cenc c L ->
  let c' := fst (counter_add c (Z.of_N (lenN t))) in
  let e := L + length (marshal_delimited t) in
  (if (counter_remainder c =? 0)%Z then counter_size c else counter_size c - 1)%Z = Z.of_nat (sidx L) /\
  counter_size c' = Z.of_nat (sidx (e - 1) + 1) /\
  cenc c' e.
Proof. exact counter_range_core. Qed.
Print Assumptions C12_counter_range_core.

(* ---- Builder.FindTxShareRange and square.TxShareRange ---- *)

(* complete description: exactly the indexes outside [0, #txs + #pfbs) are errors, every
   other index gets the exact range; a Fault can only be Export's *)
Theorem C12_find_tx_share_range : forall b ti,
  find_tx_share_range b ti =
  do b1 <- ensure_done b;
  if ((ti <? 0) || (Z.of_nat (length (bd_txs b1) + length (bd_pfbs b1)) <=? ti))%Z then Err
  else Ok (b1, zpair (builder_tx_range b1 (Z.to_nat ti))).
Proof. exact find_tx_share_range_eq. Qed.
Print Assumptions C12_find_tx_share_range.

Theorem C12_find_tx_share_range_tx : forall b ti, bd_done b = true ->
  (0 <= ti < Z.of_nat (length (bd_txs b)))%Z ->
  let k := Z.to_nat ti in
  find_tx_share_range b ti =
  Ok (b, (Z.of_nat (sidx (ustart (bd_txs b) k)), Z.of_nat (sidx (uend (bd_txs b) k - 1) + 1))).
Proof. exact find_tx_share_range_tx. Qed.
Print Assumptions C12_find_tx_share_range_tx.

Theorem C12_find_tx_share_range_pfb : forall b ti, bd_done b = true ->
  (Z.of_nat (length (bd_txs b)) <= ti < Z.of_nat (length (bd_txs b) + length (bd_pfbs b)))%Z ->
  let k := Z.to_nat ti - length (bd_txs b) in
  let off := cneeded (length (stream (bd_txs b))) in
  let w := wrapped (bd_pfbs b) in
  find_tx_share_range b ti =
  Ok (b, (Z.of_nat (off + sidx (ustart w k)), Z.of_nat (off + (sidx (uend w k - 1) + 1)))).
Proof. exact find_tx_share_range_pfb. Qed.
Print Assumptions C12_find_tx_share_range_pfb.

Theorem C12_find_tx_share_range_err : forall b ti, bd_done b = true ->
  (ti < 0 \/ Z.of_nat (length (bd_txs b) + length (bd_pfbs b)) <= ti)%Z ->
  find_tx_share_range b ti = Err.
Proof. exact find_tx_share_range_err. Qed.
Print Assumptions C12_find_tx_share_range_err.

Theorem C12_find_tx_share_range_no_fault : forall b ti,
  find_tx_share_range b ti = Fault -> bd_done b = false /\ export b = Fault.
Proof. exact find_tx_share_range_no_fault. Qed.
Print Assumptions C12_find_tx_share_range_no_fault.

Theorem C12_tx_share_range : forall txs ti max thr,
  tx_share_range txs ti max thr =
  do b <- new_builder_txs max thr txs;
  do b1 <- ensure_done b;
  if ((ti <? 0) || (Z.of_nat (length (bd_txs b1) + length (bd_pfbs b1)) <=? ti))%Z then Err
  else Ok (zpair (builder_tx_range b1 (Z.to_nat ti))).
Proof. exact tx_share_range_eq. Qed.
Print Assumptions C12_tx_share_range.

(* "as written in the square": Export keeps the transactions and writes the PFB sequence
   from exactly the wrapped PFBs of the state it returns *)
Theorem C12_export_written : forall b b1 sq, export b = Ok (b1, sq) -> builder_is_empty b = false ->
  bd_txs b1 = bd_txs b /\ bd_done b1 = true /\
  exists txw0 txw pfbw0 pfbw blob_shares nrs,
    new_csplitter tx_ns 0 = Ok txw0 /\ write_txs txw0 (bd_txs b1) = Ok txw /\
    new_csplitter pfb_ns 0 = Ok pfbw0 /\ write_txs pfbw0 (wrapped (bd_pfbs b1)) = Ok pfbw /\
    write_square txw pfbw blob_shares nrs (blob_min_square_size (Z.to_N (bd_cur b))) = Ok sq.
Proof. exact export_written. Qed.
Print Assumptions C12_export_written.

(* ---- the splitter's own ranges ---- *)
Theorem C12_splitter_ranges : forall ns ver c0 txs c,
  ns = tx_ns \/ ns = pfb_ns -> new_csplitter ns ver = Ok c0 -> write_txs c0 txs = Ok c ->
  cs_ranges c = rev (ranges_from 0 txs) /\
  cs_count c = N.of_nat (cneeded (length (stream txs))) /\
  lenN (cs_shares c) = N.of_nat (sidx (length (stream txs))).
Proof. exact splitter_ranges_exact. Qed.
Print Assumptions C12_splitter_ranges.

(* ShareRanges(offset) at the last occurrence of a transaction *)
Theorem C12_splitter_share_range : forall ns ver c0 txs c k t offset,
  ns = tx_ns \/ ns = pfb_ns -> new_csplitter ns ver = Ok c0 -> write_txs c0 txs = Ok c ->
  nth_error txs k = Some t -> ~ In t (skipn (S k) txs) ->
  cs_share_range c offset t =
  Some (N.of_nat (fst (unit_range txs k)) + offset, N.of_nat (snd (unit_range txs k)) + offset)%N.
Proof. exact splitter_share_range_exact. Qed.
Print Assumptions C12_splitter_share_range.

Theorem C12_splitter_share_range_distinct : forall ns ver c0 txs c k t offset,
  ns = tx_ns \/ ns = pfb_ns -> new_csplitter ns ver = Ok c0 -> write_txs c0 txs = Ok c ->
  NoDup txs -> nth_error txs k = Some t ->
  cs_share_range c offset t =
  Some (N.of_nat (fst (unit_range txs k)) + offset, N.of_nat (snd (unit_range txs k)) + offset)%N.
Proof. exact splitter_share_range_distinct. Qed.
Print Assumptions C12_splitter_share_range_distinct.

(* ---- square.BlobShareRange ---- *)
Theorem C12_blob_share_range : forall txs ti bi max thr,
  blob_share_range txs ti bi max thr =
  do b <- new_builder_txs max thr txs;
  let ntx := Z.of_nat (length (bd_txs b)) in
  if ((ti <? ntx) || (ntx + Z.of_nat (length (bd_pfbs b)) <=? ti) || (bi <? 0))%Z then Err else
  do b1 <- ensure_done b;
  match nth_error (bd_pfbs b1) (Z.to_nat (ti - ntx)) with
  | None => Fault
  | Some p =>
    match nth_error (pfb_idx p) (Z.to_nat bi) with
    | None => Err
    | Some i =>
      match find_element b1 (ti - ntx) bi with
      | None => Err
      | Some el => Ok (i, (i + e_num_shares el)%N)
      end
    end
  end.
Proof. exact blob_share_range_eq. Qed.
Print Assumptions C12_blob_share_range.

Theorem C12_blob_share_range_ok : forall txs ti bi max thr b b1 p i el,
  new_builder_txs max thr txs = Ok b -> ensure_done b = Ok b1 ->
  (Z.of_nat (length (bd_txs b)) <= ti)%Z -> (0 <= bi)%Z ->
  nth_error (bd_pfbs b1) (Z.to_nat ti - length (bd_txs b)) = Some p ->
  nth_error (pfb_idx p) (Z.to_nat bi) = Some i ->
  find_element b1 (ti - Z.of_nat (length (bd_txs b))) bi = Some el ->
  blob_share_range txs ti bi max thr = Ok (i, (i + e_num_shares el)%N).
Proof. exact blob_share_range_ok. Qed.
Print Assumptions C12_blob_share_range_ok.

(* negative, ordinary-transaction and too large transaction indexes, negative blob index *)
Theorem C12_blob_share_range_err : forall txs ti bi max thr b, new_builder_txs max thr txs = Ok b ->
  (ti < Z.of_nat (length (bd_txs b)) \/
   Z.of_nat (length (bd_txs b) + length (bd_pfbs b)) <= ti \/ bi < 0)%Z ->
  blob_share_range txs ti bi max thr = Err.
Proof. exact blob_share_range_err. Qed.
Print Assumptions C12_blob_share_range_err.

(* too large blob index *)
Theorem C12_blob_share_range_err_blob : forall txs ti bi max thr b b1 p,
  new_builder_txs max thr txs = Ok b -> ensure_done b = Ok b1 ->
  nth_error (bd_pfbs b1) (Z.to_nat ti - length (bd_txs b)) = Some p ->
  (Z.of_nat (length (pfb_idx p)) <= bi)%Z ->
  blob_share_range txs ti bi max thr = Err.
Proof. exact blob_share_range_err_blob. Qed.
Print Assumptions C12_blob_share_range_err_blob.

Theorem C12_blob_share_range_no_fault : forall txs ti bi max thr,
  blob_share_range txs ti bi max thr = Fault ->
  new_builder_txs max thr txs = Fault \/
  exists b, new_builder_txs max thr txs = Ok b /\ ensure_done b = Fault.
Proof. exact blob_share_range_no_fault. Qed.
Print Assumptions C12_blob_share_range_no_fault.

(* ---- the transaction can be parsed from its range ---- *)

(* the unit begins inside its range and is complete within it *)
Theorem C12_unit_inside_range : forall txs k t, nth_error txs k = Some t ->
  let lo := fst (unit_range txs k) in
  let hi := snd (unit_range txs k) in
  coff lo <= ustart txs k /\ ustart txs k < uend txs k /\ uend txs k <= coff hi /\
  lo < hi <= cneeded (length (stream txs)) /\ uend txs k <= length (stream txs).
Proof. exact unit_inside_range. Qed.
Print Assumptions C12_unit_inside_range.

(* with C11 (Proofs/SubrangeProofs.v): parsing just the shares of the range *)
Theorem C12_unit_parsed_from_range : forall ns txs k t,
  length ns = 29 -> is_compact_ns ns = true -> Forall (fun t => t <> []) txs ->
  (lenN (stream txs) < 4294967296)%N -> nth_error txs k = Some t ->
  let lo := fst (unit_range txs k) in
  let hi := snd (unit_range txs k) in
  exists res, parse_txs (firstn (hi - lo) (skipn lo (compact_spec_ix ns 0 txs))) = Ok res /\ In t res.
Proof. exact unit_parsed_from_range. Qed.
Print Assumptions C12_unit_parsed_from_range.

(* the whole chain on the writer (with Proofs/CompactWriterProofs.v: Export = closed form) *)
Theorem C12_splitter_range_parses : forall ns txs k t,
  ns = tx_ns \/ ns = pfb_ns -> Forall (fun t => t <> []) txs ->
  (lenN (stream txs) < 4294967296)%N -> nth_error txs k = Some t -> ~ In t (skipn (S k) txs) ->
  exists c0 c c' shs lo hi res,
    new_csplitter ns 0 = Ok c0 /\ write_txs c0 txs = Ok c /\ cs_export c = Ok (c', shs) /\
    cs_share_range c 0 t = Some (N.of_nat lo, N.of_nat hi) /\
    (lo, hi) = unit_range txs k /\
    parse_txs (firstn (hi - lo) (skipn lo shs)) = Ok res /\ In t res.
Proof. exact splitter_range_parses. Qed.
Print Assumptions C12_splitter_range_parses.

(* ---- non-vacuity (vm_compute) ---- *)
(* five ordinary transactions, the first ending exactly at the end of share 0 and the second
   exactly at the end of share 1 (remainder == 0 twice), then two blob transactions whose
   first wrapped PFB fills its share exactly with the real index (472 + 2 bytes) but not
   with the worst-case one (474 + 2) *)
Example C12_example_offsets :
  map (ustart ex12_normal) [0; 1; 2; 3; 4] = [0; 474; 952; 963; 1965] /\
  map (uend ex12_normal) [0; 1; 2; 3; 4] = [474; 952; 963; 1965; 1977] /\
  map (unit_range ex12_normal) [0; 1; 2; 3; 4] = [(0, 1); (1, 2); (2, 3); (2, 5); (4, 5)].
Proof. exact ex12_offsets. Qed.

Example C12_example_tx_share_range :
  map (fun i => tx_share_range ex12_txs i 8 64) [-1; 0; 1; 2; 3; 4; 5; 6; 7]%Z =
  [Err; Ok (0, 1); Ok (1, 2); Ok (2, 3); Ok (2, 5); Ok (4, 5); Ok (5, 6); Ok (6, 7); Err]%Z.
Proof. vm_compute. reflexivity. Qed.

Example C12_example_blob_share_range :
  map (fun p => blob_share_range ex12_txs (fst p) (snd p) 8 64)
      [(5, 0); (6, 0); (6, 1); (6, 2); (4, 0); (7, 0); (5, -1); (-1, 0)]%Z =
  [Ok (7, 10); Ok (10, 13); Ok (13, 16); Err; Err; Err; Err; Err]%N.
Proof. vm_compute. reflexivity. Qed.

Example C12_example_real_vs_worst_case :
  match new_builder_txs 8 64 ex12_txs with
  | Ok b =>
    match ensure_done b with
    | Ok b1 =>
      map (@length byte) (wrapped (bd_pfbs b)) = [474; 18] /\
      map (@length byte) (wrapped (bd_pfbs b1)) = [472; 14] /\
      map (builder_tx_range b1) [5; 6] = [(5, 6); (6, 7)]
    | _ => False
    end
  | _ => False
  end.
Proof. vm_compute. repeat split; reflexivity. Qed.

Example C12_example_splitter :
  match new_csplitter tx_ns 0 with
  | Ok c0 =>
    match write_txs c0 (ex12_normal ++ [ex12_t10]) with
    | Ok c =>
      map snd (cs_ranges c) = [(4, 5); (4, 5); (2, 5); (2, 3); (1, 2); (0, 1)]%N /\
      cs_share_range c 7 ex12_t10 = Some (11, 12)%N /\
      cs_share_range c 0 ex12_t1000 = Some (2, 5)%N
    | _ => False
    end
  | _ => False
  end.
Proof. vm_compute. repeat split; reflexivity. Qed.

Example C12_example_parse_range :
  NoDup ex12_normal /\ Forall (fun t => t <> []) ex12_normal /\
  (lenN (stream ex12_normal) < 4294967296)%N /\
  parse_txs (firstn (5 - 2) (skipn 2 (compact_spec_ix tx_ns 0 ex12_normal))) = Ok [ex12_t10; ex12_t1000; ex12_t11] /\
  parse_txs (firstn (2 - 1) (skipn 1 (compact_spec_ix tx_ns 0 ex12_normal))) = Ok [ex12_t476].
Proof. exact ex12_parse_range. Qed.
