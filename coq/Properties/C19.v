(* C19 - Blob, transaction-wrapper, share and namespace serialisations round-trip.
   Statements only.  The protobuf wire level is proved here; the JSON text layer
   (encoding/json, base64) is trusted and exercised by the Go-side oracle. *)
From Coq Require Import List NArith.
From GS.Model Require Import Base Varint Namespace ShareFmt Blob Proto.
From GS.Proofs Require Import NamespaceProofs ProtoProofs.
Import ListNotations.
Open Scope N_scope.

(* blob construction accepts exactly: non-empty data, non-empty version-0 namespace,
   share version 0 without signer or share version 1 with a 20-byte signer *)
Theorem C19_new_blob_acceptance : forall ns data ver signer b,
  new_blob ns data ver signer = Ok b <->
  (blob_acceptable ns data ver signer /\ b = mk_blob ns data ver signer).
Proof. exact new_blob_ok_iff. Qed.
Print Assumptions C19_new_blob_acceptance.

(* from protobuf (and JSON, which fills the same fields): additionally version fields in
   range and a well-formed namespace *)
Theorem C19_new_blob_from_proto_acceptance : forall p b, bp_ns_version p < 4294967296 ->
  let signer := match bp_signer p with [] => None | s => Some s end in
  let ns := n2b (bp_ns_version p) :: bp_ns_id p in
  new_blob_from_proto p = Ok b <->
  (bp_ns_version p <= 255 /\ bp_share_version p <= 127 /\ wellformed_ns (bp_ns_version p) (bp_ns_id p) /\
   blob_acceptable ns (bp_data p) (bp_share_version p) signer /\
   b = mk_blob ns (bp_data p) (bp_share_version p) signer).
Proof. exact new_blob_from_proto_ok_iff. Qed.
Print Assumptions C19_new_blob_from_proto_acceptance.

(* protobuf round trips *)
Theorem C19_blob_proto_round_trip : forall p, bp_ok p ->
  unmarshal_blob_proto (marshal_blob_proto p) = Ok p.
Proof. exact blob_proto_round_trip. Qed.
Print Assumptions C19_blob_proto_round_trip.

Theorem C19_blob_round_trip : forall b, blob_wire_ok b -> unmarshal_blob (marshal_blob b) = Ok b.
Proof. exact blob_round_trip. Qed.
Print Assumptions C19_blob_round_trip.

Theorem C19_blob_tx_round_trip : forall tx blobs enc, btx_ok tx blobs ->
  marshal_blob_tx tx blobs = Ok enc -> unmarshal_blob_tx enc = UbtOk (mk_btx tx blobs).
Proof. exact blob_tx_round_trip. Qed.
Print Assumptions C19_blob_tx_round_trip.

Theorem C19_index_wrapper_round_trip : forall tx idx, iw_ok tx idx ->
  unmarshal_index_wrapper (marshal_index_wrapper tx idx) = Some (mk_iw tx idx type_id_indx).
Proof. exact index_wrapper_round_trip. Qed.
Print Assumptions C19_index_wrapper_round_trip.

(* never recognised as the other kind *)
Theorem C19_blob_tx_is_not_index_wrapper : forall tx blobs enc, btx_ok tx blobs ->
  marshal_blob_tx tx blobs = Ok enc -> unmarshal_index_wrapper enc = None.
Proof. exact blob_tx_is_not_index_wrapper. Qed.
Print Assumptions C19_blob_tx_is_not_index_wrapper.

Theorem C19_index_wrapper_is_not_blob_tx : forall tx idx, iw_ok tx idx ->
  unmarshal_blob_tx (marshal_index_wrapper tx idx) = UbtNot.
Proof. exact index_wrapper_is_not_blob_tx. Qed.
Print Assumptions C19_index_wrapper_is_not_blob_tx.

(* non-vacuity *)
Example C19_example : iw_ok [Byte.x01; Byte.x02] [16384; 0; 300000] /\
  unmarshal_index_wrapper (marshal_index_wrapper [Byte.x01; Byte.x02] [16384; 0; 300000])
  = Some (mk_iw [Byte.x01; Byte.x02] [16384; 0; 300000] type_id_indx).
Proof.
  split; [|vm_compute; reflexivity].
  unfold iw_ok. split; [vm_compute; reflexivity|]. split; [repeat constructor|vm_compute; reflexivity].
Qed.
