(* share/blob.go: the Blob value and NewBlob's acceptance rule *)
From GS.Model Require Import Base Namespace ShareFmt.
Open Scope N_scope.

Record blob := mk_blob {
  b_ns : namespace;
  b_data : bytes;
  b_ver : N;                 (* share version, a uint8 *)
  b_signer : option bytes    (* None = nil slice *)
}.

(* NewBlob(ns, data, shareVersion uint8, signer) *)
Definition new_blob (ns : namespace) (data : bytes) (ver : N) (signer : option bytes) : outcome blob :=
  match data with [] => Err | _ =>
  match ns with [] => Err | _ =>
  if negb (ns_version ns =? 0) then Err else
  if ver =? 0 then
    match signer with None => Ok (mk_blob ns data ver signer) | Some _ => Err end
  else if ver =? 1 then
    match signer with
    | Some s => if Nat.eqb (length s) signer_size then Ok (mk_blob ns data ver signer) else Err
    | None => Err
    end
  else Err
  end end.

Definition signer_len (b : blob) : N :=
  match b_signer b with Some s => lenN s | None => 0 end.
Definition signer_bytes (b : blob) : bytes :=
  match b_signer b with Some s => s | None => [] end.

Definition option_bytes_eqb (a b : option bytes) : bool :=
  match a, b with
  | None, None => true
  | Some x, Some y => bytes_eqb x y
  | _, _ => false
  end.
Definition blob_eqb (a b : blob) : bool :=
  bytes_eqb (b_ns a) (b_ns b) && bytes_eqb (b_data a) (b_data b) && (b_ver a =? b_ver b)
  && option_bytes_eqb (b_signer a) (b_signer b).
