(* C20, sequence-parsing half: ParseShares tiles every square of the rule-based layout
   (Spec/LayoutSpec.v) exactly.

   For sq := layout thr normals btxs, under thr >= 1, blob-valid blobs and the estimate
   bound of LayoutShapeProofs (estimate < 2^21, implied by a maximum side <= 1024):
     1. parse_shares sq false = Ok seqs, the sequences concatenate to sq (nothing skipped,
        nothing reordered), each is non-empty, of one namespace, begins with a sequence
        start followed by non-start shares, and has the number of shares its first share
        declares (a padding sequence has exactly one share)              (layout_tiling)
     2. parse_shares sq true = Ok (tx sequence? ++ PFB sequence? ++ one sequence per blob
        in square order)                                                 (layout_sequences)
     3. the payload of a blob's sequence is the blob's data (share version 0 and 1: the
        raw data of the first share already skips the signer), the payload of the two
        compact sequences is the stream of length-prefixed transactions  (layout_payloads)
   The statements are about the spec side; they transfer to Construct / Build through the
   refinement construct = layout_construct, build = layout_build (C07). *)
From Coq Require Import List Arith NArith ZArith Lia Bool Sorted Permutation.
From Coq Require Import ZifyN ZifyNat ZifyBool.
From GS.Model Require Import Base Varint Namespace ShareFmt Blob Counter Arith Proto Square.
From GS.Spec Require Import ShareSpec CompactSpec LayoutSpec.
From GS.Proofs Require Import BaseLemmas VarintProofs SparseProofs ArithProofs NamespaceProofs
  RangeProofs CompactWriterProofs CompactParseProofs LayoutShapeProofs.
Import ListNotations.
Open Scope N_scope.

(* ================================================================== *)
(* Grouping: a concatenation of well-formed sequences is split back    *)
(* ================================================================== *)

(* one sequence-start share of the sequence's namespace, then non-start shares of it *)
Definition seq_wf (q : sequence) : Prop :=
  exists f rest, sq_shares q = f :: rest /\ sh_start f = true /\ sh_ns f = sq_ns q /\
    Forall (fun s => sh_start s = false /\ sh_ns s = sq_ns q) rest.

Definition push (cur : sequence) (done : list sequence) : list sequence :=
  match sq_shares cur with [] => done | _ => cur :: done end.

Lemma group_nil cur done : group_shares [] cur done = Ok (rev (push cur done)).
Proof. reflexivity. Qed.

Lemma group_conts : forall rest tl cur done,
  Forall (fun s => sh_start s = false /\ sh_ns s = sq_ns cur) rest ->
  group_shares (rest ++ tl) cur done = group_shares tl (mk_seq (sq_ns cur) (sq_shares cur ++ rest)) done.
Proof.
  induction rest as [|s rest IH]; intros tl cur done H.
  - cbn [app]. rewrite app_nil_r. destruct cur; reflexivity.
  - apply Forall_cons_iff in H as [[Hs Hn] H]. cbn [app group_shares]. rewrite Hs, Hn, bytes_eqb_refl.
    cbn [negb]. rewrite IH by exact H. cbn [sq_ns sq_shares]. rewrite <- app_assoc. reflexivity.
Qed.

Lemma group_seq q tl cur done : seq_wf q ->
  group_shares (sq_shares q ++ tl) cur done = group_shares tl q (push cur done).
Proof.
  intros (f & rest & Hq & Hf & Hn & Hr). destruct q as [qns qsh]. cbn [sq_shares sq_ns] in *. subst qsh.
  cbn [app group_shares]. rewrite Hf. fold (push cur done). rewrite Hn.
  rewrite group_conts by exact Hr. reflexivity.
Qed.

Lemma push_wf q done : seq_wf q -> push q done = q :: done.
Proof. intros (f & rest & Hq & _). unfold push. rewrite Hq. reflexivity. Qed.

Lemma group_seqs : forall qs cur done, Forall seq_wf qs ->
  group_shares (concat (map sq_shares qs)) cur done = Ok (rev (push cur done) ++ qs).
Proof.
  induction qs as [|q qs IH]; intros cur done H.
  - cbn [map concat]. rewrite group_nil, app_nil_r. reflexivity.
  - apply Forall_cons_iff in H as [Hq H]. cbn [map concat]. rewrite group_seq by exact Hq.
    rewrite IH by exact H. rewrite push_wf by exact Hq. cbn [rev]. rewrite <- app_assoc. reflexivity.
Qed.

Lemma map_outcome_valid : forall qs, Forall (fun q => valid_sequence_len q = Ok tt) qs ->
  map_outcome valid_sequence_len qs = Ok (map (fun _ => tt) qs).
Proof.
  induction qs as [|q qs IH]; intros H; [reflexivity|]. apply Forall_cons_iff in H as [Hq H].
  cbn [map_outcome map]. rewrite Hq, IH by exact H. reflexivity.
Qed.

(* the generic statement: ParseShares on the concatenation of well-formed sequences of
   valid length returns exactly those sequences (minus the padding ones when asked) *)
Theorem parse_shares_seqs qs ip : Forall seq_wf qs ->
  Forall (fun q => valid_sequence_len q = Ok tt) qs ->
  parse_shares (concat (map sq_shares qs)) ip =
  Ok (filter (fun s => negb (ip && seq_is_padding s)) qs).
Proof.
  intros Hwf Hv. unfold parse_shares. rewrite group_seqs by exact Hwf.
  cbn [push sq_shares rev app bind]. rewrite map_outcome_valid by exact Hv. reflexivity.
Qed.

(* ================================================================== *)
(* The three kinds of sequence of a square                             *)
(* ================================================================== *)

(* ---- padding: every padding share is its own one-share sequence ---- *)
Definition pad_seq (ns : namespace) (ver : N) : sequence := mk_seq ns [padding_spec ns ver].

Lemma pad_seq_wf ns ver : length ns = 29%nat -> ver <= 127 -> seq_wf (pad_seq ns ver).
Proof.
  intros Hns Hver. destruct (padding_spec_accessors ns ver Hns Hver) as (H1 & _ & H3 & _).
  exists (padding_spec ns ver), []. repeat split; try assumption. constructor.
Qed.

Lemma pad_seq_is_padding ns ver : length ns = 29%nat -> ver <= 127 -> seq_is_padding (pad_seq ns ver) = true.
Proof. intros Hns Hver. unfold seq_is_padding, pad_seq. cbn [sq_shares]. apply padding_spec_accessors; assumption. Qed.

Lemma pad_seq_valid ns ver : length ns = 29%nat -> ver <= 127 -> valid_sequence_len (pad_seq ns ver) = Ok tt.
Proof.
  intros Hns Hver. unfold valid_sequence_len. rewrite pad_seq_is_padding by assumption. reflexivity.
Qed.

Lemma concat_pad_seqs ns ver n :
  concat (map sq_shares (repeat (pad_seq ns ver) n)) = repeat (padding_spec ns ver) n.
Proof.
  induction n as [|n IH]; [reflexivity|].
  change (repeat (pad_seq ns ver) (S n)) with (pad_seq ns ver :: repeat (pad_seq ns ver) n).
  cbn [map concat]. rewrite IH. reflexivity.
Qed.

(* ---- compact: the whole exported run of a non-empty transaction list ---- *)
Definition compact_seq (ns : namespace) (txs : list bytes) : sequence := mk_seq ns (compact_spec_ix ns 0 txs).

Section CompactSeq.
  Variables (ns : namespace) (txs : list bytes).
  Hypothesis Hns : length ns = 29%nat.
  Hypothesis Hc : is_compact_ns ns = true.
  Hypothesis Hne : txs <> [].
  Hypothesis Hlen : lenN (stream txs) < 4294967296.

  Lemma stream_pos : (0 < length (stream txs))%nat.
  Proof.
    clear Hns Hc Hlen. destruct txs as [|t tl]; [congruence|]. pose proof (stream_nonempty t tl) as H.
    destruct (stream (t :: tl)); [congruence|cbn [length]; lia].
  Qed.

  (* first share: start, declares the stream length; the rest: non-start; all: the namespace *)
  Lemma compact_seq_shape : exists f rest, compact_spec_ix ns 0 txs = f :: rest /\
    sh_start f = true /\ sh_seq_len f = lenN (stream txs) /\ sh_ns f = ns /\
    Forall (fun s => sh_start s = false /\ sh_ns s = ns) rest.
  Proof.
    destruct (compact_spec_ix ns 0 txs) as [|f rest] eqn:E.
    - exfalso. pose proof (LayoutShapeProofs.compact_spec_ix_length ns 0 txs) as Hl. rewrite E in Hl.
      unfold compact_count in Hl. rewrite lenN_nil in Hl. pose proof (cneeded_pos _ stream_pos). lia.
    - destruct (compact_spec_ix_seq_len ns 0 txs f rest Hns ltac:(lia) E) as (H1 & H2 & H3).
      pose proof (compact_spec_ix_ns ns txs Hns) as Hn. rewrite E in Hn. apply Forall_cons_iff in Hn as [Hnf Hnr].
      exists f, rest. split; [reflexivity|]. split; [exact H1|]. split; [rewrite H2; apply u32_small, Hlen|].
      split; [exact Hnf|]. rewrite Forall_forall in *. intros s Hs. split; [apply H3, Hs|apply Hnr, Hs].
  Qed.

  Lemma compact_seq_wf : seq_wf (compact_seq ns txs).
  Proof.
    destruct compact_seq_shape as (f & rest & E & H1 & _ & H3 & H4).
    exists f, rest. cbn [compact_seq sq_shares sq_ns]. repeat split; assumption.
  Qed.

  Lemma compact_seq_not_padding : seq_is_padding (compact_seq ns txs) = false.
  Proof.
    destruct compact_seq_shape as (f & rest & E & H1 & H2 & H3 & _).
    unfold seq_is_padding, compact_seq. cbn [sq_shares]. rewrite E. destruct rest; [|reflexivity].
    unfold sh_is_padding. rewrite H1, H2, H3. destruct (compact_ns_not_padding ns Hc) as [-> ->].
    pose proof stream_pos. unfold lenN. replace (N.of_nat (length (stream txs)) =? 0) with false by lia. reflexivity.
  Qed.

  (* the number of shares is the one the first share declares *)
  Lemma compact_seq_needed f rest : compact_spec_ix ns 0 txs = f :: rest ->
    number_of_shares_needed f = Ok (lenN (compact_spec_ix ns 0 txs)).
  Proof.
    intros E. destruct compact_seq_shape as (f' & rest' & E' & H1 & H2 & H3 & _).
    rewrite E in E'. injection E' as <- <-.
    unfold number_of_shares_needed, sh_is_compact. rewrite H3. fold (is_compact_ns ns). rewrite Hc, H2.
    rewrite LayoutShapeProofs.compact_spec_ix_length. unfold compact_count, lenN. rewrite cneeded_compact. reflexivity.
  Qed.

  Lemma compact_seq_valid : valid_sequence_len (compact_seq ns txs) = Ok tt.
  Proof.
    unfold valid_sequence_len. rewrite compact_seq_not_padding. cbn [compact_seq sq_shares].
    destruct (compact_spec_ix ns 0 txs) as [|f rest] eqn:E.
    - destruct compact_seq_shape as (f' & rest' & E' & _). rewrite E in E'. discriminate.
    - rewrite <- E. rewrite (compact_seq_needed f rest E). cbn [bind]. rewrite N.eqb_refl. reflexivity.
  Qed.

  (* payload: the stream of length-prefixed transactions *)
  Lemma compact_seq_raw_data : sequence_raw_data (compact_seq ns txs) = Ok (stream txs).
  Proof.
    unfold sequence_raw_data. cbn [compact_seq sq_shares].
    destruct compact_seq_shape as (f & rest & E & _ & H2 & _).
    assert (Hd : exists z, concat (map sh_raw_data (compact_spec_ix ns 0 txs)) = stream txs ++ zeros z).
    { unfold compact_spec_ix. rewrite map_raw_data_cshares by assumption.
      pose proof (cneeded_pos _ stream_pos) as Hp. pose proof (cneeded_enough (length (stream txs))) as He.
      destruct (cneeded (length (stream txs))) as [|n]; [lia|].
      replace (S n - 1)%nat with n in He by lia. eexists. apply cpayloads_tile, He. }
    destruct Hd as (z & Hd). rewrite Hd, E, H2.
    replace (lenN (stream txs ++ zeros z) <? lenN (stream txs)) with false by (rewrite lenN_app; lia).
    unfold slice_to. replace (lenN (stream txs) <=? lenN (stream txs ++ zeros z)) with true by (rewrite lenN_app; lia).
    unfold takeN, lenN. rewrite Nnat.Nat2N.id, firstn_app, Nat.sub_diag, firstn_O, app_nil_r, firstn_all. reflexivity.
  Qed.
End CompactSeq.

(* ---- blobs: the shares of one blob ---- *)
Definition blob_seq (b : blob) : sequence := mk_seq (b_ns b) (blob_spec b).

(* the declared length (data plus signer) fits the uint32 the validation computes with *)
Definition blob_fits (b : blob) : Prop := lenN (b_data b) + signer_len b <= 4294967295.

Section BlobSeq.
  Variable b : blob.
  Hypothesis Hok : blob_ok b.

  Let cap : nat := (478 - length (spec_signer b))%nat.
  Let P : bytes := pad_to cap (firstn cap (b_data b)).

  Lemma blob_spec_cons : blob_spec b =
    (b_ns b ++ [info_of (b_ver b) true] ++ be32 (lenN (b_data b)) ++ spec_signer b ++ P)
    :: map (fun c => b_ns b ++ [info_of (b_ver b) false] ++ pad_to 482 c) (chunks 482 (skipn cap (b_data b))).
  Proof. reflexivity. Qed.

  Lemma blob_first_accessors :
    let f := b_ns b ++ [info_of (b_ver b) true] ++ be32 (lenN (b_data b)) ++ spec_signer b ++ P in
    sh_ns f = b_ns b /\ sh_start f = true /\ sh_seq_len f = lenN (b_data b) /\
    sh_signer f = b_signer b /\ sh_raw_data f = P.
  Proof.
    pose proof Hok as (Hns & Hc & _ & _ & _ & _ & Hlen & _).
    assert (Hv : (b_ver b = 0 /\ spec_signer b = []) \/ (b_ver b = 1 /\ length (spec_signer b) = 20%nat)).
    { destruct (blob_ok_signer b Hok) as [(H1 & H2 & _)|(H1 & H2 & _)]; [left|right]; split; assumption. }
    destruct (sparse_first_accessors (b_ns b) (b_ver b) (lenN (b_data b)) (spec_signer b) P Hns Hc Hlen Hv)
      as (H1 & _ & H3 & H4 & H5 & H6).
    cbv zeta. repeat split; try assumption. rewrite H5.
    destruct (blob_ok_signer b Hok) as [(Hv0 & _ & ->)|(Hv1 & _ & ->)]; [rewrite Hv0|rewrite Hv1]; reflexivity.
  Qed.

  Lemma blob_cont_accessors c :
    let s := b_ns b ++ [info_of (b_ver b) false] ++ pad_to 482 c in
    sh_ns s = b_ns b /\ sh_start s = false /\ sh_raw_data s = pad_to 482 c.
  Proof.
    pose proof Hok as (Hns & Hc & _). destruct (blob_ok_ver b Hok) as [Hv _].
    destruct (sparse_cont_accessors (b_ns b) (b_ver b) (pad_to 482 c) Hns Hc Hv) as (H1 & _ & H3 & _ & _ & H6).
    cbv zeta. repeat split; assumption.
  Qed.

  Lemma blob_seq_wf : seq_wf (blob_seq b).
  Proof.
    destruct blob_first_accessors as (H1 & H2 & _). unfold blob_seq. rewrite blob_spec_cons.
    eexists _, _. cbn [sq_shares sq_ns]. split; [reflexivity|]. split; [exact H2|]. split; [exact H1|].
    apply Forall_forall. intros s Hs. apply in_map_iff in Hs. destruct Hs as (c & <- & _).
    destruct (blob_cont_accessors c) as (H3 & H4 & _). split; assumption.
  Qed.

  Lemma blob_seq_not_padding : seq_is_padding (blob_seq b) = false.
  Proof.
    pose proof Hok as (_ & _ & Ht & Hp & _ & Hd & _).
    destruct blob_first_accessors as (H1 & H2 & H3 & _).
    unfold seq_is_padding, blob_seq. cbn [sq_shares]. rewrite blob_spec_cons.
    destruct (map _ _); [|reflexivity]. unfold sh_is_padding. rewrite H1, H2, H3, Ht, Hp.
    assert (lenN (b_data b) <> 0) by (unfold lenN; destruct (b_data b); [congruence|cbn [length]; lia]).
    replace (lenN (b_data b) =? 0) with false by lia. reflexivity.
  Qed.

  (* the number of shares is the one the first share declares (data + signer bytes) *)
  Lemma blob_seq_needed f rest : blob_fits b -> blob_spec b = f :: rest ->
    number_of_shares_needed f = Ok (lenN (blob_spec b)).
  Proof.
    intros Hfit E. pose proof Hok as (Hns & Hc & _). rewrite blob_spec_cons in E.
    apply (f_equal (fun l => hd [] l)) in E. cbn [hd] in E. subst f.
    destruct blob_first_accessors as (H1 & _ & H3 & H4 & _).
    unfold number_of_shares_needed, sh_is_compact. rewrite H1. fold (is_compact_ns (b_ns b)). rewrite Hc, H3, H4.
    fold (signer_len b). unfold blob_fits in Hfit.
    replace (4294967295 <? lenN (b_data b) + signer_len b) with false by lia.
    rewrite (blob_spec_length b Hok). reflexivity.
  Qed.

  Lemma blob_seq_valid : blob_fits b -> valid_sequence_len (blob_seq b) = Ok tt.
  Proof.
    intros Hfit. unfold valid_sequence_len. rewrite blob_seq_not_padding. cbn [blob_seq sq_shares].
    destruct (blob_spec b) as [|f rest] eqn:E; [rewrite blob_spec_cons in E; discriminate|].
    rewrite <- E, (blob_seq_needed f rest Hfit E). cbn [bind]. rewrite N.eqb_refl. reflexivity.
  Qed.

  (* payload: the blob's data, for share version 0 and for share version 1 alike - the raw
     data of a version 1 first share starts after the 20 signer bytes *)
  Lemma blob_seq_raw_data : sequence_raw_data (blob_seq b) = Ok (b_data b).
  Proof.
    unfold sequence_raw_data. cbn [blob_seq sq_shares]. rewrite blob_spec_cons.
    destruct blob_first_accessors as (_ & _ & H3 & _ & H5). cbv zeta in H3, H5.
    cbn [map concat]. rewrite H3, H5, map_map.
    rewrite (map_ext _ (pad_to 482)) by (intros c; apply blob_cont_accessors).
    destruct (payload_concat cap (b_data b)) as (z & Hz). fold P in Hz. rewrite Hz.
    replace (lenN (b_data b ++ zeros z) <? lenN (b_data b)) with false by (rewrite lenN_app; lia).
    unfold slice_to. replace (lenN (b_data b) <=? lenN (b_data b ++ zeros z)) with true by (rewrite lenN_app; lia).
    unfold takeN, lenN. rewrite Nnat.Nat2N.id, firstn_app, Nat.sub_diag, firstn_O, app_nil_r, firstn_all. reflexivity.
  Qed.

  (* what the accessors report on the first share of a blob's sequence *)
  Lemma blob_seq_first : exists f rest, blob_spec b = f :: rest /\ sh_start f = true /\
    sh_seq_len f = lenN (b_data b) /\ sh_signer f = b_signer b.
  Proof.
    destruct blob_first_accessors as (_ & H2 & H3 & H4 & _). rewrite blob_spec_cons.
    eexists _, _. split; [reflexivity|]. repeat split; assumption.
  Qed.
End BlobSeq.

(* ================================================================== *)
(* What a parsed sequence looks like (item 1, per sequence)            *)
(* ================================================================== *)

(* non-empty; a sequence start followed by non-start shares; one namespace; a padding
   sequence is a single share, any other has the share count its first share declares *)
Definition seq_tile_ok (q : sequence) : Prop :=
  exists f rest, sq_shares q = f :: rest /\ sh_start f = true /\
    Forall (fun s => sh_start s = false) rest /\
    Forall (fun s => sh_ns s = sq_ns q) (sq_shares q) /\
    ((seq_is_padding q = true /\ rest = []) \/
     (seq_is_padding q = false /\ number_of_shares_needed f = Ok (lenN (sq_shares q)))).

Definition seq_good (q : sequence) : Prop := seq_wf q /\ valid_sequence_len q = Ok tt.

Lemma seq_good_tile_ok q : seq_good q -> seq_tile_ok q.
Proof.
  intros [(f & rest & Hq & Hf & Hn & Hr) Hv]. exists f, rest. split; [exact Hq|]. split; [exact Hf|].
  split; [eapply Forall_impl; [|exact Hr]; intros s [H _]; exact H|].
  split.
  - rewrite Hq. constructor; [exact Hn|]. eapply Forall_impl; [|exact Hr]. intros s [_ H]. exact H.
  - unfold valid_sequence_len in Hv. rewrite Hq in Hv. destruct (seq_is_padding q) eqn:Ep.
    + left. split; [reflexivity|]. unfold seq_is_padding in Ep. rewrite Hq in Ep. destruct rest; [reflexivity|discriminate].
    + right. split; [reflexivity|]. destruct (number_of_shares_needed f) as [n| |]; try discriminate.
      cbn [bind] in Hv. rewrite <- Hq in Hv. destruct (lenN (sq_shares q) =? n) eqn:E; [|discriminate].
      apply N.eqb_eq in E. rewrite E. reflexivity.
Qed.

(* ================================================================== *)
(* The sequences of a layout                                           *)
(* ================================================================== *)

(* a sequence that is present iff the list [l] is non-empty *)
Definition opt_seq {A} (l : list A) (q : sequence) : list sequence :=
  match l with [] => [] | _ => [q] end.

(* (padding shares, each its own sequence, then the blob's sequence)* *)
Fixpoint gapped_seqs (pns : namespace) (pver : N) (l : list (nat * blob)) : list sequence :=
  match l with
  | [] => []
  | (g, b) :: tl => repeat (pad_seq pns pver) g ++ blob_seq b :: gapped_seqs (b_ns b) (b_ver b) tl
  end.

Definition tx_seq (normals : list bytes) : sequence := compact_seq tx_ns normals.
Definition pfb_seq (thr : N) (normals : list bytes) (btxs : list blob_tx) : sequence :=
  compact_seq pfb_ns (wrappers (lay_placed thr normals btxs) 0 btxs).

Definition layout_seqs (thr : N) (normals : list bytes) (btxs : list blob_tx) : list sequence :=
  opt_seq normals (tx_seq normals) ++ opt_seq btxs (pfb_seq thr normals btxs)
  ++ gapped_seqs primary_reserved_padding_ns 0
       (gaps_of (lenN (tx_run normals ++ pfb_run thr normals btxs)) (lay_placed thr normals btxs))
  ++ repeat (pad_seq tail_padding_ns 0)
       (N.to_nat (lay_side thr normals btxs * lay_side thr normals btxs - lenN (lay_body thr normals btxs))).

(* the blobs in square order *)
Definition square_blobs (btxs : list blob_tx) : list blob := map lb_blob (sorted_blobs btxs).

Definition data_seqs (thr : N) (normals : list bytes) (btxs : list blob_tx) : list sequence :=
  opt_seq normals (tx_seq normals) ++ opt_seq btxs (pfb_seq thr normals btxs)
  ++ map blob_seq (square_blobs btxs).

Lemma concat_map_app {A B} (f : A -> list B) a b : concat (map f (a ++ b)) = concat (map f a) ++ concat (map f b).
Proof. rewrite map_app, concat_app. reflexivity. Qed.

Definition keep_data (s : sequence) : bool := negb (true && seq_is_padding s).

Lemma filter_all {A} (f : A -> bool) l : Forall (fun x => f x = true) l -> filter f l = l.
Proof. induction 1 as [|x l Hx _ IH]; [reflexivity|]. cbn [filter]. rewrite Hx, IH. reflexivity. Qed.

Lemma filter_none {A} (f : A -> bool) l : Forall (fun x => f x = false) l -> filter f l = [].
Proof. induction 1 as [|x l Hx _ IH]; [reflexivity|]. cbn [filter]. rewrite Hx, IH. reflexivity. Qed.

Lemma filter_pad_seqs ns ver n : length ns = 29%nat -> ver <= 127 ->
  filter keep_data (repeat (pad_seq ns ver) n) = [].
Proof.
  intros Hns Hver. apply filter_none, Forall_repeat. unfold keep_data. rewrite pad_seq_is_padding by assumption. reflexivity.
Qed.

Lemma good_pad_seqs ns ver n : length ns = 29%nat -> ver <= 127 -> Forall seq_good (repeat (pad_seq ns ver) n).
Proof. intros Hns Hver. apply Forall_repeat. split; [apply pad_seq_wf|apply pad_seq_valid]; assumption. Qed.

(* ---- the blob region ---- *)
Definition blob_good (b : blob) : Prop := blob_ok b /\ blob_fits b.

Lemma gapped_concat : forall gl pns pver,
  concat (map sq_shares (gapped_seqs pns pver gl)) = gapped pns pver gl.
Proof.
  induction gl as [|[g b] gl IH]; intros pns pver; [reflexivity|]. cbn [gapped_seqs gapped].
  rewrite concat_map_app, concat_pad_seqs. cbn [map concat blob_seq sq_shares]. rewrite IH. reflexivity.
Qed.

Lemma gapped_good : forall gl pns pver, length pns = 29%nat -> pver <= 127 ->
  Forall (fun gb => blob_good (snd gb)) gl -> Forall seq_good (gapped_seqs pns pver gl).
Proof.
  induction gl as [|[g b] gl IH]; intros pns pver Hp Hv H; [constructor|].
  apply Forall_cons_iff in H as [[Hok Hfit] H]. cbn [snd] in Hok, Hfit. cbn [gapped_seqs].
  apply Forall_app. split; [apply good_pad_seqs; assumption|]. constructor.
  - split; [apply blob_seq_wf, Hok|apply blob_seq_valid; assumption].
  - apply IH; [apply Hok|apply (blob_ok_ver b Hok)|exact H].
Qed.

Lemma gapped_filter : forall gl pns pver, length pns = 29%nat -> pver <= 127 ->
  Forall (fun gb => blob_good (snd gb)) gl ->
  filter keep_data (gapped_seqs pns pver gl) = map blob_seq (map snd gl).
Proof.
  induction gl as [|[g b] gl IH]; intros pns pver Hp Hv H; [reflexivity|].
  apply Forall_cons_iff in H as [[Hok Hfit] H]. cbn [snd] in Hok, Hfit. cbn [gapped_seqs map snd].
  rewrite filter_app, filter_pad_seqs by assumption. cbn [app filter]. unfold keep_data at 1.
  rewrite (blob_seq_not_padding b Hok). cbn [andb negb]. f_equal.
  apply IH; [apply Hok|apply (blob_ok_ver b Hok)|exact H].
Qed.

(* ---- the two compact runs ---- *)
Lemma opt_seq_concat {A} (l : list A) ns txs : (l = [] -> txs = []) ->
  concat (map sq_shares (opt_seq l (compact_seq ns txs))) = compact_spec_ix ns 0 txs.
Proof.
  intros H. destruct l as [|x l]; cbn [opt_seq map concat compact_seq sq_shares].
  - rewrite (H eq_refl). symmetry. apply compact_spec_ix_nil.
  - apply app_nil_r.
Qed.

Lemma opt_seq_good {A} (l : list A) ns txs : length ns = 29%nat -> is_compact_ns ns = true ->
  (l <> [] -> txs <> []) -> lenN (stream txs) < 4294967296 ->
  Forall seq_good (opt_seq l (compact_seq ns txs)).
Proof.
  intros Hns Hc H Hl. destruct l as [|x l]; [constructor|]. assert (Hne : txs <> []) by (apply H; discriminate).
  constructor; [|constructor]. split; [apply compact_seq_wf|apply compact_seq_valid]; assumption.
Qed.

Lemma opt_seq_filter {A} (l : list A) ns txs : length ns = 29%nat -> is_compact_ns ns = true ->
  (l <> [] -> txs <> []) -> lenN (stream txs) < 4294967296 ->
  filter keep_data (opt_seq l (compact_seq ns txs)) = opt_seq l (compact_seq ns txs).
Proof.
  intros Hns Hc H Hl. destruct l as [|x l]; [reflexivity|]. assert (Hne : txs <> []) by (apply H; discriminate).
  cbn [opt_seq filter]. unfold keep_data. rewrite compact_seq_not_padding by assumption. reflexivity.
Qed.

Lemma wrappers_nil_iff placed : forall btxs pi, (btxs = [] -> wrappers placed pi btxs = []) /\
  (btxs <> [] -> wrappers placed pi btxs <> []).
Proof. intros [|t tl] pi; cbn [wrappers]; split; intros H; congruence. Qed.

(* ================================================================== *)
(* The estimate bound keeps every declared length inside a uint32      *)
(* ================================================================== *)

Section Bounds.
  Local Ltac Zify.zify_post_hook ::= Z.div_mod_to_equations.

  Lemma sparse_needed_fits n : sparse_shares_needed n < 2097152 -> n <= 4294967295.
  Proof.
    unfold sparse_shares_needed. destruct (n =? 0) eqn:E0; [lia|]. destruct (n <? 478) eqn:E1; [lia|].
    destruct (0 <? (n - 478) mod 482); lia.
  Qed.

  Lemma compact_needed_fits n : compact_shares_needed n < 2097152 -> n < 4294967296.
  Proof.
    unfold compact_shares_needed. destruct (n =? 0) eqn:E0; [lia|]. destruct (n <? 474) eqn:E1; [lia|].
    destruct (0 <? (n - 474) mod 478); lia.
  Qed.
End Bounds.

Lemma compact_count_fits txs : compact_count txs < 2097152 -> lenN (stream txs) < 4294967296.
Proof. unfold compact_count, lenN. rewrite cneeded_compact. apply compact_needed_fits. Qed.

Section LayoutFacts.
  Variables (thr : N) (normals : list bytes) (btxs : list blob_tx).
  Hypothesis Ht : 1 <= thr.
  Hypothesis Hok : Forall lay_btx_ok btxs.
  Hypothesis Hest : estimate thr normals btxs < 2097152.

  Lemma tx_stream_fits : lenN (stream normals) < 4294967296.
  Proof. clear Ht Hok. apply compact_count_fits. unfold estimate in Hest. lia. Qed.

  Lemma pfb_stream_fits : lenN (stream (wrappers (lay_placed thr normals btxs) 0 btxs)) < 4294967296.
  Proof.
    clear Hok. apply compact_count_fits.
    pose proof (compact_count_wrappers _ btxs (placed_index_small thr normals btxs Ht Hest)) as H.
    unfold estimate in Hest. lia.
  Qed.

  Lemma placed_good : Forall (fun e => blob_good (lb_blob e)) (lay_placed thr normals btxs).
  Proof.
    destruct (placed_facts thr normals btxs Hok) as (H1 & _ & _).
    pose proof (assign_index_le thr Ht (sorted_blobs btxs) (lay_start normals btxs)) as H2.
    assert (H3 : Forall (fun e => lb_n e = blob_share_count (lb_blob e)) (lay_placed thr normals btxs)).
    { unfold lay_placed. apply (assign_Forall thr (fun b n => n = blob_share_count b)).
      eapply Forall_impl; [|apply sorted_blobs_ok, Hok]. intros e [_ H]. exact H. }
    pose proof (final_cursor_estimate thr normals btxs Ht) as H4.
    fold (lay_placed thr normals btxs) in H2. rewrite Forall_forall in *. intros e He.
    split; [apply H1, He|]. unfold blob_fits. apply sparse_needed_fits.
    specialize (H2 e He). specialize (H3 e He). unfold blob_share_count in H3. lia.
  Qed.

  Lemma gaps_good k :
    Forall (fun gb => blob_good (snd gb)) (gaps_of k (lay_placed thr normals btxs)).
  Proof.
    apply (proj1 (Forall_map snd blob_good _)). rewrite gaps_of_blobs.
    apply (proj2 (Forall_map lb_blob blob_good _)). exact placed_good.
  Qed.

  Lemma square_blobs_good : Forall blob_good (square_blobs btxs).
  Proof.
    unfold square_blobs. rewrite <- (proj1 (placed_blobs thr normals btxs)).
    apply (proj2 (Forall_map lb_blob blob_good _)). exact placed_good.
  Qed.

  (* the sequences concatenate to the square *)
  Lemma layout_seqs_concat : concat (map sq_shares (layout_seqs thr normals btxs)) = layout thr normals btxs.
  Proof.
    rewrite layout_unfold. destruct (lay_body_eq thr normals btxs Ht Hok Hest) as [Hb _].
    unfold tail_pad. rewrite Hb at 1. unfold layout_seqs. rewrite !concat_map_app.
    rewrite gapped_concat, concat_pad_seqs, <- region_gapped.
    unfold tx_seq, pfb_seq. rewrite opt_seq_concat by (intros ->; reflexivity).
    rewrite opt_seq_concat by (apply wrappers_nil_iff).
    unfold tx_run, pfb_run. rewrite <- !app_assoc. reflexivity.
  Qed.

  Lemma layout_seqs_good : Forall seq_good (layout_seqs thr normals btxs).
  Proof.
    unfold layout_seqs. repeat (apply Forall_app; split).
    - apply opt_seq_good; [apply length_tx_ns|reflexivity|auto|apply tx_stream_fits].
    - apply opt_seq_good; [apply length_pfb_ns|reflexivity|apply wrappers_nil_iff|apply pfb_stream_fits].
    - apply gapped_good; [apply length_reserved_ns|lia|apply gaps_good].
    - apply good_pad_seqs; [apply length_tail_ns|lia].
  Qed.

  Lemma layout_seqs_filter : filter keep_data (layout_seqs thr normals btxs) = data_seqs thr normals btxs.
  Proof.
    unfold layout_seqs, data_seqs, tx_seq, pfb_seq. rewrite !filter_app.
    rewrite opt_seq_filter by (try apply length_tx_ns; try reflexivity; try apply tx_stream_fits; auto).
    rewrite opt_seq_filter by (try apply length_pfb_ns; try reflexivity; try apply pfb_stream_fits; apply wrappers_nil_iff).
    rewrite gapped_filter by (try apply length_reserved_ns; try lia; apply gaps_good).
    rewrite filter_pad_seqs by (try apply length_tail_ns; lia).
    rewrite gaps_of_blobs, app_nil_r. unfold square_blobs. rewrite (proj1 (placed_blobs thr normals btxs)). reflexivity.
  Qed.
End LayoutFacts.

(* ================================================================== *)
(* The theorems                                                        *)
(* ================================================================== *)

(* ---- Item 1: parsing tiles the square ---- *)
Theorem layout_tiling thr normals btxs : 1 <= thr -> Forall lay_btx_ok btxs ->
  estimate thr normals btxs < 2097152 ->
  let sq := layout thr normals btxs in
  let seqs := layout_seqs thr normals btxs in
  parse_shares sq false = Ok seqs /\ concat (map sq_shares seqs) = sq /\ Forall seq_tile_ok seqs.
Proof.
  intros Ht Hok Hest sq seqs.
  pose proof (layout_seqs_concat thr normals btxs Ht Hok Hest) as Hc.
  pose proof (layout_seqs_good thr normals btxs Ht Hok Hest) as Hg. fold seqs in Hc, Hg. fold sq in Hc.
  split; [|split; [exact Hc|]].
  - rewrite <- Hc. rewrite parse_shares_seqs.
    + f_equal. apply filter_all, Forall_forall. intros q _. reflexivity.
    + eapply Forall_impl; [|exact Hg]. intros q [H _]. exact H.
    + eapply Forall_impl; [|exact Hg]. intros q [_ H]. exact H.
  - eapply Forall_impl; [|exact Hg]. exact seq_good_tile_ok.
Qed.

(* ---- Item 2: with padding ignored, exactly the data sequences, blobs in square order ---- *)
Theorem layout_sequences thr normals btxs : 1 <= thr -> Forall lay_btx_ok btxs ->
  estimate thr normals btxs < 2097152 ->
  let bs := square_blobs btxs in
  parse_shares (layout thr normals btxs) true =
    Ok (opt_seq normals (tx_seq normals) ++ opt_seq btxs (pfb_seq thr normals btxs) ++ map blob_seq bs)
  /\ Permutation bs (concat (map btx_blobs btxs)) /\ StronglySorted blob_le bs
  /\ bs = map lb_blob (lay_placed thr normals btxs).
Proof.
  intros Ht Hok Hest bs.
  pose proof (layout_seqs_concat thr normals btxs Ht Hok Hest) as Hc.
  pose proof (layout_seqs_good thr normals btxs Ht Hok Hest) as Hg.
  destruct (placed_blobs thr normals btxs) as (Hp1 & Hp2 & Hp3).
  split; [|unfold bs, square_blobs; rewrite <- Hp1; repeat split; assumption].
  rewrite <- Hc. rewrite parse_shares_seqs.
  - f_equal. exact (layout_seqs_filter thr normals btxs Ht Hok Hest).
  - eapply Forall_impl; [|exact Hg]. intros q [H _]. exact H.
  - eapply Forall_impl; [|exact Hg]. intros q [_ H]. exact H.
Qed.

(* ---- Item 3: payloads ---- *)
(* any blob NewBlob accepts, share version 0 or 1: Sequence.RawData is the blob's data.  For
   version 1 the first share's raw data begins after the 20 signer bytes (GetSigner returns
   them), so the signer is not part of the payload and the declared length is the data's. *)
Theorem blob_seq_payload b : blob_ok b ->
  sequence_raw_data (blob_seq b) = Ok (b_data b) /\
  exists f rest, sq_shares (blob_seq b) = f :: rest /\ sh_seq_len f = lenN (b_data b) /\
    sh_signer f = b_signer b.
Proof.
  intros Hok. split; [apply blob_seq_raw_data, Hok|].
  destruct (blob_seq_first b Hok) as (f & rest & E & _ & H1 & H2). exists f, rest. repeat split; assumption.
Qed.

(* a compact sequence: Sequence.RawData is the stream of length-prefixed transactions *)
Theorem compact_seq_payload ns txs : length ns = 29%nat -> is_compact_ns ns = true -> txs <> [] ->
  lenN (stream txs) < 4294967296 ->
  sequence_raw_data (compact_seq ns txs) = Ok (stream txs).
Proof. apply compact_seq_raw_data. Qed.

Theorem layout_payloads thr normals btxs : 1 <= thr -> Forall lay_btx_ok btxs ->
  estimate thr normals btxs < 2097152 ->
  (normals <> [] -> sequence_raw_data (tx_seq normals) = Ok (stream normals)) /\
  (btxs <> [] -> sequence_raw_data (pfb_seq thr normals btxs) =
                 Ok (stream (wrappers (lay_placed thr normals btxs) 0 btxs))) /\
  Forall (fun b => sequence_raw_data (blob_seq b) = Ok (b_data b)) (square_blobs btxs).
Proof.
  intros Ht Hok Hest. split; [|split].
  - intros Hne. apply compact_seq_raw_data; [apply length_tx_ns|reflexivity|exact Hne|].
    eapply tx_stream_fits; eassumption.
  - intros Hne. apply compact_seq_raw_data; [apply length_pfb_ns|reflexivity| |].
    + apply wrappers_nil_iff, Hne.
    + eapply pfb_stream_fits; eassumption.
  - eapply Forall_impl; [|exact (square_blobs_good thr normals btxs Ht Hok Hest)].
    intros b [Hb _]. apply blob_seq_raw_data, Hb.
Qed.

(* ---- the same under the hypotheses of layout_shape, and for Construct ---- *)
Definition square_tiled (thr : N) (normals : list bytes) (btxs : list blob_tx) (sq : list share) : Prop :=
  (exists seqs, parse_shares sq false = Ok seqs /\ concat (map sq_shares seqs) = sq /\ Forall seq_tile_ok seqs) /\
  parse_shares sq true =
    Ok (opt_seq normals (tx_seq normals) ++ opt_seq btxs (pfb_seq thr normals btxs)
        ++ map blob_seq (square_blobs btxs)) /\
  (normals <> [] -> sequence_raw_data (tx_seq normals) = Ok (stream normals)) /\
  (btxs <> [] -> sequence_raw_data (pfb_seq thr normals btxs) =
                 Ok (stream (wrappers (lay_placed thr normals btxs) 0 btxs))) /\
  Forall (fun b => sequence_raw_data (blob_seq b) = Ok (b_data b)) (square_blobs btxs).

Theorem layout_tiled thr normals btxs m : 1 <= thr -> Forall lay_btx_ok btxs ->
  pow2 m -> m <= 1024 -> estimate thr normals btxs <= m * m ->
  square_tiled thr normals btxs (layout thr normals btxs).
Proof.
  intros Ht Hok _ Hm Hfit. assert (Hest : estimate thr normals btxs < 2097152) by nia.
  destruct (layout_tiling thr normals btxs Ht Hok Hest) as (H1 & H2 & H3).
  destruct (layout_sequences thr normals btxs Ht Hok Hest) as (H4 & _).
  destruct (layout_payloads thr normals btxs Ht Hok Hest) as (H5 & H6 & H7).
  unfold square_tiled. split; [eexists; repeat split; eassumption|]. repeat split; assumption.
Qed.

Theorem layout_construct_tiled raws max thr sq : 1 <= thr -> (max <= 1024)%Z ->
  layout_construct raws max thr = Ok sq ->
  exists normals btxs, split_ordered false raws [] [] = Some (normals, btxs) /\
    sq = layout thr normals btxs /\
    (Forall lay_btx_ok btxs -> square_tiled thr normals btxs sq).
Proof.
  intros Ht Hmax H. unfold layout_construct in H.
  destruct ((0 <? max)%Z && is_pow2 max) eqn:Ecfg; cbn [negb] in H; [|discriminate].
  apply andb_true_iff in Ecfg as [Hpos Hp2].
  destruct (split_ordered false raws [] []) as [[normals btxs]|] eqn:Es; [|discriminate].
  destruct (estimate thr normals btxs <=? Z.to_N max * Z.to_N max) eqn:Ee; [|discriminate].
  injection H as <-. exists normals, btxs. split; [reflexivity|]. split; [reflexivity|].
  intros Hok. apply (layout_tiled thr normals btxs (Z.to_N max)); try assumption;
    [apply is_pow2_to_N; assumption|lia|lia].
Qed.

Theorem layout_build_tiled raws max thr sq kept : 1 <= thr -> (max <= 1024)%Z ->
  layout_build raws max thr = Ok (sq, kept) ->
  exists normals btxs, keep (Z.to_N max * Z.to_N max) thr raws [] [] [] [] = Some (normals, btxs, kept) /\
    sq = layout thr normals btxs /\
    (Forall lay_btx_ok btxs -> square_tiled thr normals btxs sq).
Proof.
  intros Ht Hmax H. unfold layout_build in H.
  destruct ((0 <? max)%Z && is_pow2 max) eqn:Ecfg; cbn [negb] in H; [|discriminate].
  apply andb_true_iff in Ecfg as [Hpos Hp2].
  destruct (keep (Z.to_N max * Z.to_N max) thr raws [] [] [] []) as [[[normals btxs] kept']|] eqn:Ek; [|discriminate].
  injection H as <- <-. exists normals, btxs. split; [reflexivity|]. split; [reflexivity|].
  intros Hok. apply (layout_tiled thr normals btxs (Z.to_N max)); try assumption;
    [apply is_pow2_to_N; assumption|lia|].
  apply (keep_estimate _ _ _ _ _ _ _ _ _ _ Ek). change (estimate thr [] []) with 0. lia.
Qed.

(* ================================================================== *)
(* Non-vacuity: a concrete input satisfying the conditions             *)
(* ================================================================== *)

(* two ordinary transactions of 3 bytes; one blob transaction (500 byte PFB) with a 2000 byte share
   version 0 blob and a 600 byte share version 1 blob (20 byte signer), given in
   descending namespace order; thr = 1, maximum side 4 *)
Definition tl_blob_v0 : blob := mk_blob (ex_ns Byte.x02) (repeat Byte.x08 2000) 0 None.
Definition tl_blob_v1 : blob := mk_blob (ex_ns Byte.x01) (repeat Byte.x07 600) 1 (Some (repeat Byte.x09 20)).
Definition tl_normals : list bytes := [[Byte.x01; Byte.x02; Byte.x03]; [Byte.x04; Byte.x05; Byte.x06]].
Definition tl_btxs : list blob_tx := [mk_btx (repeat Byte.x0a 500) [tl_blob_v0; tl_blob_v1]].

Lemma tl_btxs_ok : Forall lay_btx_ok tl_btxs.
Proof.
  constructor; [|constructor]. unfold lay_btx_ok. cbn [btx_blobs tl_btxs]. constructor; [|constructor; [|constructor]].
  - apply ex_blob_ok; [discriminate|vm_compute; reflexivity|right; left; reflexivity].
  - split; [|vm_compute; reflexivity]. unfold blob_ok. cbn [tl_blob_v1 b_ns b_data b_ver b_signer].
    repeat split; try reflexivity; try discriminate.
    right. split; [reflexivity|]. eexists. split; reflexivity.
Qed.

Example tl_hyps : 1 <= 1 /\ Forall lay_btx_ok tl_btxs /\ pow2 4 /\ 4 <= 1024 /\
  estimate 1 tl_normals tl_btxs <= 4 * 4 /\ estimate 1 tl_normals tl_btxs < 2097152.
Proof.
  split; [lia|]. split; [apply tl_btxs_ok|]. split; [exists 2; reflexivity|]. split; [lia|].
  split; vm_compute; [discriminate|reflexivity].
Qed.

Example tl_tiled : square_tiled 1 tl_normals tl_btxs (layout 1 tl_normals tl_btxs).
Proof. destruct tl_hyps as (H1 & H2 & H3 & H4 & H5 & _). exact (layout_tiled 1 tl_normals tl_btxs 4 H1 H2 H3 H4 H5). Qed.
