(* C11: parsing a contiguous sub-range of a compact share sequence out of context.

   shs = compact_spec_ix ns 0 txs (the closed-form share encoding of the stream
   S = stream txs of length-prefixed transactions).  For every lo <= hi <= length shs

     parse_txs (firstn (hi - lo) (skipn lo shs))
       = Ok [ tx_k | coff lo <= start_k  /\  end_k <= min (coff hi) (length S) ]

   Three parts:
   A. parse_raw_data on (a cut of) a stream of units followed by zero fill returns
      exactly the units that are complete (varint canonicity, truncated delimiters);
   B. extract_raw_data over shares lo..hi-1 skips the shares without a unit start and
      returns the stream from the first unit start u >= coff lo up to coff hi, zero filled;
   C. glue: the first unit start found by the reserved bytes is a unit boundary. *)
From Coq Require Import List Arith NArith ZArith Lia Bool.
From Coq Require Import ZifyN ZifyNat ZifyBool.
From GS.Model Require Import Base Varint Namespace ShareFmt Compact.
From GS.Spec Require Import ShareSpec CompactSpec.
From GS.Proofs Require Import BaseLemmas VarintProofs.
Import ListNotations.

Open Scope nat_scope.

(* ------------------------------------------------------------------------- *)
(* The characterisation: transactions whose unit starts at or after [a] and    *)
(* ends at or before [b]; [off] is the stream offset of the first unit.        *)
(* ------------------------------------------------------------------------- *)
Definition in_range (a b : nat) (p : bytes * nat) : bool :=
  Nat.leb a (snd p) && Nat.leb (snd p + length (marshal_delimited (fst p))) b.
Definition sel_txs (a b off : nat) (txs : list bytes) : list bytes :=
  map fst (filter (in_range a b) (combine txs (ustarts off (units txs)))).
Definition sub_expected (lo hi : nat) (txs : list bytes) : list bytes :=
  sel_txs (coff lo) (Nat.min (coff hi) (length (stream txs))) 0 txs.

Definition tx_ok (tx : bytes) : Prop := 0 < length tx /\ (lenN tx < 2 ^ 64)%N.

Lemma stream_cons tx tl : stream (tx :: tl) = marshal_delimited tx ++ stream tl.
Proof. reflexivity. Qed.

Lemma stream_app t1 t2 : stream (t1 ++ t2) = stream t1 ++ stream t2.
Proof. unfold stream, units. rewrite map_app, concat_app. reflexivity. Qed.

Lemma length_md_pos tx : 1 <= length (marshal_delimited tx).
Proof.
  unfold marshal_delimited. rewrite app_length.
  pose proof (put_uvarint_length (lenN tx)). lia.
Qed.

Lemma sel_cons a b off tx tl :
  sel_txs a b off (tx :: tl) =
  if in_range a b (tx, off) then tx :: sel_txs a b (off + length (marshal_delimited tx)) tl
  else sel_txs a b (off + length (marshal_delimited tx)) tl.
Proof.
  unfold sel_txs. cbn [units map ustarts combine filter].
  destruct (in_range a b (tx, off)); reflexivity.
Qed.

Lemma sel_nil : forall txs a b off, b <= off -> sel_txs a b off txs = [].
Proof.
  induction txs as [|tx tl IH]; intros a b off H; [reflexivity|].
  rewrite sel_cons. pose proof (length_md_pos tx) as Hp.
  replace (in_range a b (tx, off)) with false
    by (unfold in_range; cbn [fst snd]; lia).
  apply IH. lia.
Qed.

(* ------------------------------------------------------------------------- *)
(* Part A: varint canonicity, truncated delimiters, parse_raw_data             *)
(* ------------------------------------------------------------------------- *)

(* every byte of an encoding but the last is a continuation byte *)
Lemma put_uvarint_fuel_init : forall fuel n k, k < length (put_uvarint_fuel fuel n) ->
  Forall (fun b => 128 <= b2n b)%N (firstn k (put_uvarint_fuel fuel n)).
Proof.
  induction fuel as [|f IH]; intros n k Hk; cbn [put_uvarint_fuel] in *.
  - cbn [length] in Hk. lia.
  - destruct (n <? 128)%N eqn:E.
    + cbn [length] in Hk. replace k with 0 by lia. rewrite firstn_O. constructor.
    + destruct k as [|k]; [rewrite firstn_O; constructor|].
      rewrite firstn_cons. constructor.
      * rewrite b2n_n2b by lia. lia.
      * apply IH. cbn [length] in Hk. lia.
Qed.

(* ... and the last one is not *)
Lemma put_uvarint_fuel_last : forall fuel n, 0 < fuel -> (n < 2 ^ (7 * N.of_nat fuel))%N ->
  exists init last, put_uvarint_fuel fuel n = init ++ [last] /\
    Forall (fun b => 128 <= b2n b)%N init /\ (b2n last < 128)%N.
Proof.
  induction fuel as [|f IH]; intros n Hf Hn; [lia|].
  cbn [put_uvarint_fuel]. destruct (n <? 128)%N eqn:E.
  - exists [], (n2b n). split; [reflexivity|]. split; [constructor|]. rewrite b2n_n2b by lia. lia.
  - destruct f as [|f].
    + change (7 * N.of_nat 1)%N with 7%N in Hn. change (2 ^ 7)%N with 128%N in Hn. lia.
    + destruct (IH (n / 128)%N ltac:(lia)) as (init & last & Heq & Hinit & Hlast).
      { replace (7 * N.of_nat (S (S f)))%N with (7 + 7 * N.of_nat (S f))%N in Hn by lia.
        rewrite pow2_7 in Hn. apply N.div_lt_upper_bound; lia. }
      exists (n2b (128 + n mod 128) :: init), last. rewrite Heq. split; [reflexivity|].
      split; [|exact Hlast]. constructor; [|exact Hinit]. rewrite b2n_n2b by lia. lia.
Qed.

Theorem put_uvarint_canonical n : (n < 2 ^ 64)%N ->
  exists init last, put_uvarint n = init ++ [last] /\
    Forall (fun b => 128 <= b2n b)%N init /\ (b2n last < 128)%N.
Proof.
  intros H. apply put_uvarint_fuel_last; [lia|].
  change (7 * N.of_nat 10)%N with 70%N.
  assert (2 ^ 64 <= 2 ^ 70)%N by (apply N.pow_le_mono_r; lia). lia.
Qed.

(* a buffer of fewer than ten continuation bytes ends inside the varint *)
Lemma uvarint_go_short : forall l i shift acc,
  Forall (fun b => 128 <= b2n b)%N l -> i + length l <= 10 ->
  uvarint_go i l shift acc = UvShort.
Proof.
  induction l as [|b l IH]; intros i shift acc HF Hl; [reflexivity|].
  inversion HF as [|? ? Hb HF']; subst. cbn [length] in Hl.
  cbn [uvarint_go]. replace (Nat.eqb i 10) with false by lia.
  replace (b2n b <? 128)%N with false by lia.
  apply IH; [exact HF'|lia].
Qed.

(* a delimiter cut by the end of the input is reported as incomplete *)
Lemma parse_delimiter_cut n k : 0 < k < length (put_uvarint n) ->
  parse_delimiter (firstn k (put_uvarint n)) = DelimIncomplete.
Proof.
  intros Hk. pose proof (put_uvarint_length n) as Hl.
  assert (Hlen : length (firstn k (put_uvarint n)) = k) by (rewrite firstn_length; lia).
  unfold parse_delimiter.
  destruct (firstn k (put_uvarint n)) as [|x l] eqn:E; [cbn [length] in Hlen; lia|].
  rewrite <- E in Hlen |- *. rewrite (@firstn_all2 _ 10) by lia.
  unfold uvarint. rewrite uvarint_go_short.
  - rewrite Hlen. replace (Nat.ltb k 10) with true by lia. reflexivity.
  - apply put_uvarint_fuel_init. unfold put_uvarint in Hk. lia.
  - rewrite Hlen. lia.
Qed.

Lemma parse_raw_zeros fuel z : parse_raw_data (S fuel) (zeros z) = Ok [].
Proof.
  destruct z as [|z]; [reflexivity|].
  change (zeros (S z)) with (Byte.x00 :: zeros z).
  cbn [parse_raw_data]. rewrite parse_delimiter_zero. reflexivity.
Qed.

(* a proper prefix of a delimited non-empty transaction yields nothing *)
Lemma parse_raw_cut fuel tx k : tx_ok tx -> k < length (marshal_delimited tx) ->
  parse_raw_data (S fuel) (firstn k (marshal_delimited tx)) = Ok [].
Proof.
  intros [Hne Hlt] Hk. unfold marshal_delimited in *. rewrite app_length in Hk.
  destruct (Nat.eq_dec k 0) as [->|Hk0]; [reflexivity|].
  destruct (Nat.lt_ge_cases k (length (put_uvarint (lenN tx)))) as [Hc|Hc].
  - rewrite firstn_app. replace (k - length (put_uvarint (lenN tx))) with 0 by lia.
    rewrite firstn_O, app_nil_r.
    cbn [parse_raw_data]. rewrite parse_delimiter_cut by lia. reflexivity.
  - rewrite firstn_app. rewrite (@firstn_all2 _ _ (put_uvarint (lenN tx))) by lia.
    cbn [parse_raw_data]. rewrite parse_delimiter_put by exact Hlt.
    replace (lenN tx =? 0)%N with false by (unfold lenN; lia).
    replace (lenN (firstn (k - length (put_uvarint (lenN tx))) tx) <? lenN tx)%N with true;
      [reflexivity|].
    unfold lenN in *. rewrite firstn_length. lia.
Qed.

(* one complete unit is consumed *)
Lemma parse_raw_unit fuel tx rest : tx_ok tx ->
  parse_raw_data (S fuel) (marshal_delimited tx ++ rest) =
  do r <- parse_raw_data fuel rest; Ok (tx :: r).
Proof.
  intros [Hne Hlt]. unfold marshal_delimited. rewrite <- app_assoc.
  cbn [parse_raw_data]. rewrite parse_delimiter_put by exact Hlt.
  replace (lenN tx =? 0)%N with false by (unfold lenN; lia).
  replace (lenN (tx ++ rest) <? lenN tx)%N with false
    by (unfold lenN; rewrite app_length; lia).
  unfold dropN, takeN, lenN. rewrite Nat2N.id.
  rewrite skipn_app, skipn_all, Nat.sub_diag, skipn_O.
  rewrite firstn_app, firstn_all, Nat.sub_diag, firstn_O, app_nil_r. reflexivity.
Qed.

(* Step 2 in full generality: the raw data is the stream of [txs] (first unit at
   stream offset [off]) cut at stream offset [b] and followed by [z] zero bytes,
   where zero fill only follows the complete stream.  The parser returns exactly
   the units that end at or before [b]. *)
Theorem parse_raw_sel : forall txs off a b z fuel,
  Forall tx_ok txs -> a <= off -> (z = 0 \/ off + length (stream txs) <= b) ->
  length (firstn (b - off) (stream txs) ++ zeros z) < fuel ->
  parse_raw_data fuel (firstn (b - off) (stream txs) ++ zeros z) = Ok (sel_txs a b off txs).
Proof.
  induction txs as [|tx tl IH]; intros off a b z fuel Hok Ha Hz Hfuel.
  - destruct fuel as [|fuel]; [lia|].
    change (stream []) with (@nil byte). rewrite firstn_nil. cbn [app].
    rewrite parse_raw_zeros. reflexivity.
  - inversion Hok as [|? ? Htx Htl]; subst.
    destruct fuel as [|fuel]; [lia|].
    rewrite stream_cons in *. rewrite sel_cons. rewrite app_length in Hz.
    set (md := marshal_delimited tx) in *.
    pose proof (length_md_pos tx) as Hp. fold md in Hp.
    destruct (Nat.le_gt_cases (off + length md) b) as [Hle|Hgt].
    + replace (in_range a b (tx, off)) with true
        by (unfold in_range; cbn [fst snd]; fold md; lia).
      rewrite firstn_app in *. rewrite (@firstn_all2 _ _ md) in * by lia.
      rewrite <- app_assoc in *. unfold md at 1. rewrite parse_raw_unit by exact Htx.
      replace (b - off - length md) with (b - (off + length md)) in * by lia.
      rewrite (IH (off + length md) a b z fuel); [reflexivity|exact Htl|lia|lia|].
      rewrite app_length in Hfuel. lia.
    + replace (in_range a b (tx, off)) with false
        by (unfold in_range; cbn [fst snd]; fold md; lia).
      rewrite sel_nil by lia.
      assert (z = 0) by lia. subst z. rewrite zeros_0, app_nil_r.
      rewrite firstn_app. replace (b - off - length md) with 0 by lia.
      rewrite firstn_O, app_nil_r.
      unfold md. apply parse_raw_cut; [exact Htx|fold md; lia].
Qed.

(* ------------------------------------------------------------------------- *)
(* Part B: the raw data of a sub-range                                         *)
(* ------------------------------------------------------------------------- *)

Lemma skipn_add {A} : forall a b (l : list A), skipn (a + b) l = skipn b (skipn a l).
Proof.
  induction a as [|a IH]; intros b l; [rewrite skipn_O; reflexivity|].
  destruct l as [|x l]; [rewrite !skipn_nil; reflexivity|].
  cbn [Nat.add]. rewrite !skipn_cons. apply IH.
Qed.

Lemma firstn_add {A} : forall a b (l : list A),
  firstn (a + b) l = firstn a l ++ firstn b (skipn a l).
Proof.
  induction a as [|a IH]; intros b l; [rewrite firstn_O, skipn_O; reflexivity|].
  destruct l as [|x l]; [rewrite skipn_nil, !firstn_nil; reflexivity|].
  cbn [Nat.add]. rewrite !firstn_cons, skipn_cons, IH. reflexivity.
Qed.

(* [w] bytes of the stream from offset [a], zero filled *)
Definition padded (a w : nat) (s : bytes) : bytes := pad_to w (firstn w (skipn a s)).

Lemma length_padded a w s : length (padded a w s) = w.
Proof. unfold padded. apply length_pad_to. rewrite firstn_length. lia. Qed.

Lemma padded_0 a s : padded a 0 s = [].
Proof. unfold padded, pad_to. rewrite firstn_O. reflexivity. Qed.

Lemma padded_split a w1 w2 s : padded a (w1 + w2) s = padded a w1 s ++ padded (a + w1) w2 s.
Proof.
  unfold padded, pad_to. rewrite skipn_add, firstn_add.
  set (t := skipn a s).
  destruct (Nat.le_gt_cases w1 (length t)) as [Hle|Hgt].
  - assert (H1 : length (firstn w1 t) = w1) by (rewrite firstn_length; lia).
    rewrite app_length, H1, Nat.sub_diag, zeros_0, app_nil_r, <- app_assoc.
    do 3 f_equal. lia.
  - rewrite (skipn_all2 (n := w1)) by lia. rewrite firstn_nil, app_nil_r.
    cbn [length app]. rewrite <- app_assoc, zeros_app. do 2 f_equal.
    rewrite firstn_length. lia.
Qed.

Lemma skipn_padded d a w s : d <= w -> skipn d (padded a w s) = padded (a + d) (w - d) s.
Proof.
  intros H. replace w with (d + (w - d)) at 1 by lia. rewrite padded_split.
  rewrite skipn_app, length_padded, Nat.sub_diag, skipn_O.
  rewrite skipn_all2 by (rewrite length_padded; lia). reflexivity.
Qed.

Lemma padded_cut u c s : u <= c ->
  padded u (c - u) s =
  firstn (Nat.min c (length s) - u) (skipn u s) ++ zeros (c - Nat.max u (Nat.min c (length s))).
Proof.
  intros H. unfold padded, pad_to.
  assert (E : firstn (c - u) (skipn u s) = firstn (Nat.min c (length s) - u) (skipn u s)).
  { destruct (Nat.le_gt_cases c (length s)) as [Hle|Hgt].
    - rewrite Nat.min_l by lia. reflexivity.
    - rewrite Nat.min_r by lia. rewrite !firstn_all2 by (rewrite skipn_length; lia). reflexivity. }
  rewrite E. do 2 f_equal. rewrite firstn_length, skipn_length. lia.
Qed.

(* accessors on a compact share of version 0 given by its parts *)
Section CompactShare.
  Variables (ns pc : bytes) (total : N) (st : bool) (r : nat).
  Hypothesis Hns : length ns = 29.
  Hypothesis Hc : is_compact_ns ns = true.
  Hypothesis Hpc : length pc = if st then 474 else 478.
  Hypothesis Hr : r = 0 \/ ((if st then 38 else 34) <= r < 512).
  Let body := (if st then be32 total else []) ++ be32 (N.of_nat r) ++ pc.
  Let s := ns ++ [info_of 0 st] ++ body.

  Lemma cs_version : sh_version s = 0%N.
  Proof. unfold sh_version, s. rewrite hdr_info by exact Hns. apply info_of_version. lia. Qed.

  Lemma cs_start : sh_start s = st.
  Proof. unfold sh_start, s. rewrite hdr_info by exact Hns. apply info_of_start. lia. Qed.

  Lemma cs_compact : sh_is_compact s = true.
  Proof. unfold sh_is_compact, s. rewrite hdr_ns by exact Hns. exact Hc. Qed.

  Lemma cs_length : length s = 512.
  Proof.
    unfold s. rewrite hdr_length by exact Hns. unfold body.
    rewrite !app_length, Hpc, length_be32. destruct st; cbn [length]; lia.
  Qed.

  Lemma cs_raw_data : sh_raw_data s = pc.
  Proof.
    unfold sh_raw_data, raw_data_start. rewrite cs_start, cs_compact, cs_version.
    unfold s, body. destruct st.
    - change (30 + addif true 4 + addif true 4 + addif (true && (0 =? 1)%N) 20) with 38.
      rewrite hdr_skip38 by exact Hns. reflexivity.
    - change (30 + addif false 4 + addif true 4 + addif (false && (0 =? 1)%N) 20) with 34.
      rewrite hdr_skip34 by exact Hns. reflexivity.
  Qed.

  Lemma cs_raw_reserved :
    sh_raw_data_using_reserved s =
    Ok (if Nat.eqb r 0 then [] else skipn (r - (if st then 38 else 34)) pc).
  Proof.
    pose proof cs_length as Hlen.
    unfold sh_raw_data_using_reserved. cbv zeta. rewrite cs_start, cs_compact, cs_version.
    assert (Hres : firstn 4 (skipn (30 + addif st 4 + addif (st && (0 =? 1)%N) 20) s)
                   = be32 (N.of_nat r)).
    { unfold s, body. destruct st.
      - change (30 + addif true 4 + addif (true && (0 =? 1)%N) 20) with 34.
        rewrite hdr_skip34 by exact Hns. reflexivity.
      - change (30 + addif false 4 + addif (false && (0 =? 1)%N) 20) with 30.
        rewrite hdr_skip30 by exact Hns. reflexivity. }
    rewrite Hres. unfold parse_reserved_bytes. rewrite length_be32.
    change (negb (Nat.eqb 4 4)) with false. cbv iota.
    rewrite rd32_be32 by (destruct st; lia).
    replace (512 <=? N.of_nat r)%N with false by (destruct st; lia).
    cbn [bind].
    destruct (Nat.eqb r 0) eqn:E0.
    - replace (N.of_nat r =? 0)%N with true by lia. reflexivity.
    - replace (N.of_nat r =? 0)%N with false by lia.
      unfold slice_from, dropN, lenN. rewrite Hlen, Nat2N.id.
      replace (512%N <? N.of_nat r)%N with false by (destruct st; lia).
      replace (N.of_nat r <=? 512%N)%N with true by (destruct st; lia).
      f_equal. unfold s, body. destruct st.
      + replace r with (30 + (8 + (r - 38))) at 1 by lia.
        rewrite hdr_skip by exact Hns. rewrite skipn_add. reflexivity.
      + replace r with (30 + (4 + (r - 34))) at 1 by lia.
        rewrite hdr_skip by exact Hns. rewrite skipn_add. reflexivity.
  Qed.
End CompactShare.
