package main

// Deterministic PRNG (SplitMix64) and the input vocabularies shared by the
// property generators: boundary ("hot") lengths, namespaces, blobs, transactions.

import (
	"github.com/celestiaorg/go-square/v2/share"
	"github.com/celestiaorg/go-square/v2/tx"
)

type Rng struct{ s uint64 }

func NewRng(seed uint64) *Rng { return &Rng{s: seed*0x9E3779B97F4A7C15 + 0x1234567} }

func (r *Rng) U64() uint64 {
	r.s += 0x9E3779B97F4A7C15
	z := r.s
	z = (z ^ (z >> 30)) * 0xBF58476D1CE4E5B9
	z = (z ^ (z >> 27)) * 0x94D049BB133111EB
	return z ^ (z >> 31)
}

func (r *Rng) Intn(n int) int {
	if n <= 0 {
		return 0
	}
	return int(r.U64() % uint64(n))
}

func (r *Rng) Range(lo, hi int) int { return lo + r.Intn(hi-lo+1) }

func (r *Rng) Bool(pct int) bool { return r.Intn(100) < pct }

func (r *Rng) Bytes(n int) []byte {
	b := make([]byte, n)
	for i := 0; i < n; i += 8 {
		v := r.U64()
		for j := 0; j < 8 && i+j < n; j++ {
			b[i+j] = byte(v >> (8 * j))
		}
	}
	return b
}

func pick[T any](r *Rng, l []T) T { return l[r.Intn(len(l))] }

func hashString(s string) uint64 {
	h := uint64(14695981039346656037)
	for i := 0; i < len(s); i++ {
		h ^= uint64(s[i])
		h *= 1099511628211
	}
	return h
}

// around returns the values v-d..v+d that are >= lo.
func around(vs []int, d, lo int) []int {
	seen := map[int]bool{}
	var out []int
	for _, v := range vs {
		for x := v - d; x <= v+d; x++ {
			if x >= lo && !seen[x] {
				seen[x] = true
				out = append(out, x)
			}
		}
	}
	return out
}

// Hot data lengths for sparse sequences: multiples of the content sizes
// (478 first / 482 continuation, 458 first for version 1) +-2.
var sparseHot = around([]int{1, 458, 478, 458 + 482, 478 + 482, 458 + 2*482, 478 + 2*482, 478 + 3*482, 458 + 5*482, 478 + 7*482}, 2, 1)

// Hot raw transaction lengths for compact sequences: such that the delimited
// unit ends near a share end (474 first / 478 continuation), and around the
// varint width changes 127/128 and 16383/16384.
var compactHot = around([]int{1, 126, 127, 128, 472, 473, 474, 476, 478, 474 + 478 - 2, 474 + 2*478 - 2, 16383, 16384, 16385}, 2, 1)

// a few blob namespaces: all blob-valid (version 0, above the primary reserved range)
func blobNamespaces(r *Rng, k int) [][]byte {
	out := make([][]byte, k)
	style := r.Intn(8)
	var prefix [2]byte
	copy(prefix[:], r.Bytes(2))
	for i := range out {
		ns := make([]byte, share.NamespaceSize)
		// 10 user bytes at the end; make sure it is above 0x00..00FF
		copy(ns[19:], r.Bytes(10))
		switch {
		case style == 6:
			// one shared 2-byte prefix, 8-byte tails at the extremes of the unsigned / signed 64-bit range
			ns[19], ns[20] = prefix[0], prefix[1]
			tails := [][]byte{{0, 0, 0, 0, 0, 0, 1, 0}, {0x7f, 0xff, 0xff, 0xff, 0xff, 0xff, 0xff, 0xff}, {0x80, 0, 0, 0, 0, 0, 0, 0},
				{0xc0, 0, 0, 0, 0, 0, 0, 0}, {0xff, 0xff, 0xff, 0xff, 0xff, 0xff, 0xff, 0xfe}, {0, 0, 0, 0, 0x80, 0, 0, 1}}
			copy(ns[21:], tails[r.Intn(len(tails))])
			if ns[19]|ns[20] == 0 && ns[21]|ns[22]|ns[23]|ns[24]|ns[25]|ns[26]|ns[27] == 0 {
				ns[20] = 1
			}
		case style == 7:
			// user namespaces whose low bytes look like a reserved namespace (…0001 tx, …0002, …0004 pfb, …00ff),
			// told apart from it only by the two highest user bytes
			for j := 21; j < 28; j++ {
				ns[j] = 0
			}
			ns[28] = []byte{1, 2, 4, 0xff}[r.Intn(4)]
			ns[19], ns[20] = byte(r.Intn(3)), byte(1+r.Intn(3))
		case r.Bool(50):
			// small, clustered namespaces so that equal and adjacent ones occur
			for j := 19; j < 27; j++ {
				ns[j] = 0
			}
			ns[27] = byte(1 + r.Intn(3))
			ns[28] = byte(r.Intn(4))
		case ns[19]|ns[20]|ns[21]|ns[22]|ns[23]|ns[24]|ns[25]|ns[26]|ns[27] == 0:
			ns[27] = 1
		}
		out[i] = ns
	}
	return out
}

type genBlob struct {
	ns     []byte
	ver    uint8
	signer []byte
	data   []byte
}

func (g genBlob) spec() string { return blobSpec(g.ns, g.ver, g.signer, g.data) }

func (g genBlob) blob() *share.Blob {
	b, err := share.NewBlob(nsOf(g.ns), g.data, g.ver, g.signer)
	if err != nil {
		panic("harness: generated an invalid blob: " + err.Error())
	}
	return b
}

func sparseLen(r *Rng, max int) int {
	var l int
	switch r.Intn(10) {
	case 0, 1, 2, 3, 4:
		l = pick(r, sparseHot)
	case 5, 6:
		l = 1 + r.Intn(100)
	case 7, 8:
		l = 1 + r.Intn(3000)
	default:
		l = 1 + r.Intn(max)
	}
	if l > max {
		l = 1 + l%max
	}
	return l
}

func randBlob(r *Rng, nss [][]byte, maxLen int) genBlob {
	g := genBlob{ns: pick(r, nss)}
	if r.Bool(40) {
		g.ver = 1
		g.signer = randSigner(r)
	}
	g.data = patterned(r, sparseLen(r, maxLen))
	if r.Intn(9) == 0 {
		zeroAtContinuationStarts(g.data, g.ver)
	}
	return g
}

// zeroAtContinuationStarts puts four zero bytes exactly where each continuation share's payload begins
// (data offset 478+482k for share version 0, 458+482k with a signer) and makes the rest non-zero: in a
// continuation share those bytes sit where a first share has its sequence length.
func zeroAtContinuationStarts(data []byte, ver uint8) {
	first := 478
	if ver == 1 {
		first = 458
	}
	for i := range data {
		if data[i] == 0 {
			data[i] = 0x5a
		}
	}
	for off := first; off < len(data); off += 482 {
		for j := 0; j < 4 && off+j < len(data); j++ {
			data[off+j] = 0
		}
	}
}

// randSigner: random in most cases; otherwise the extreme signer values (all zero - the bytes a share
// without a signer has in that place -, all 0xff, a single low bit, a single high bit)
func randSigner(r *Rng) []byte {
	b := r.Bytes(20)
	switch r.Intn(12) {
	case 0, 1:
		for i := range b {
			b[i] = 0
		}
	case 2:
		for i := range b {
			b[i] = 0xff
		}
	case 3:
		for i := range b {
			b[i] = 0
		}
		b[19] = 1
	case 4:
		for i := range b {
			b[i] = 0
		}
		b[0] = 0x80
	}
	return b
}

// patterned: random bytes in most cases, otherwise byte patterns that look like
// share header fields (zero runs, 0xff runs, small big-endian numbers, info bytes)
// so that payload can be mistaken for padding / sequence starts / reserved bytes.
func patterned(r *Rng, n int) []byte {
	b := r.Bytes(n)
	switch r.Intn(10) {
	case 0:
		for i := range b {
			b[i] = 0
		}
	case 1:
		for i := range b {
			b[i] = 0xff
		}
	case 2:
		for i := range b {
			b[i] = byte([]int{0, 0, 0, 1}[i%4])
		}
	case 3:
		// zero runs of 4-40 bytes at random places and around share boundaries
		for k := 0; k < 1+n/300; k++ {
			pos := r.Intn(n)
			if r.Bool(60) {
				pos = pick(r, []int{458, 478}) + 482*r.Intn(1+n/482) - r.Intn(3)
			}
			for j := 0; j < 4+r.Intn(37) && pos+j < n; j++ {
				if pos+j >= 0 {
					b[pos+j] = 0
				}
			}
		}
	}
	return b
}

// normalTx returns bytes that are not recognised as a BlobTx.  Random bytes can
// by accident parse as protobuf; only a type_id "BLOB" would matter, which
// random data does not produce, but the classification is re-checked anyway.
func normalTx(r *Rng, n int) []byte {
	for {
		b := r.Bytes(n)
		if r.Bool(30) {
			// delimiter look-alikes
			for i := range b {
				b[i] = byte([]int{1, 2, 3, 4, 5, 0x80, 0x81, 0}[r.Intn(8)])
			}
		}
		if _, isBlob, _ := tx.UnmarshalBlobTx(b); !isBlob {
			return b
		}
	}
}

func compactLen(r *Rng, max int) int {
	var l int
	switch r.Intn(10) {
	case 0, 1, 2, 3:
		l = pick(r, compactHot)
	case 4, 5, 6:
		l = 1 + r.Intn(300)
	case 7, 8:
		l = 1 + r.Intn(1500)
	default:
		l = 1 + r.Intn(max)
	}
	if l > max {
		l = 1 + l%max
	}
	return l
}

// shortInner: when set, some blob transactions carry a short inner transaction
// (1-80 bytes) instead of the 329+4k byte mock PFB, so that several wrapped
// PFBs share one compact share.  Only for properties that never deconstruct.
var shortInner = false

// almostBlobOK: when set, randTxList also emits ordinary transactions that are corrupted blob transactions
var almostBlobOK = true

// emptyTxOK: when set, randTxList also emits zero-length ordinary transactions
var emptyTxOK = false

func blobTxOf(r *Rng, blobs []genBlob) []byte {
	sizes := make([]uint32, len(blobs))
	bs := make([]*share.Blob, len(blobs))
	for i, g := range blobs {
		sizes[i] = uint32(len(g.data))
		bs[i] = g.blob()
	}
	// the inner "PFB": 329 arbitrary bytes then the sizes (the repo's mock format)
	prefix := r.Bytes(mockPFBExtraBytes)
	if r.Intn(10) == 0 {
		// an inner transaction that is ITSELF a well-formed IndexWrapper message (type id first, then the tx
		// field covering the rest, sizes included): a blob transaction's inner bytes are opaque, whatever
		// they decode as
		n := mockPFBExtraBytes - 9 + 4*len(sizes)
		copy(prefix, []byte{0x1a, 0x04, 'I', 'N', 'D', 'X', 0x0a, byte(n&0x7f) | 0x80, byte(n >> 7)})
	}
	inner := mockPFB(prefix, sizes)
	if shortInner && r.Bool(45) {
		inner = r.Bytes(1 + r.Intn(80))
		if r.Bool(30) {
			// wrapped PFB ends within a few bytes of a compact share boundary
			inner = r.Bytes(440 + r.Intn(40))
		}
	}
	if shortInner && r.Intn(12) == 0 {
		inner = nil // an EMPTY inner transaction: proto3 omits the field from the wrapper altogether
	}
	out, err := tx.MarshalBlobTx(inner, bs...)
	if err != nil {
		panic("harness: MarshalBlobTx: " + err.Error())
	}
	return out
}

// blobTxWithInner: a blob transaction with exactly this inner transaction.
func blobTxWithInner(inner []byte, blobs []genBlob) []byte {
	bs := make([]*share.Blob, len(blobs))
	for i, g := range blobs {
		bs[i] = g.blob()
	}
	out, err := tx.MarshalBlobTx(inner, bs...)
	if err != nil {
		panic("harness: MarshalBlobTx: " + err.Error())
	}
	return out
}

type genTx struct {
	raw   []byte
	blobs []genBlob // nil for a normal tx
}

// randTxList: a mixed list (normal and blob txs interleaved when mixed is true,
// otherwise normals first).
func randTxList(r *Rng, nNormal, nBlobTx int, maxBlobLen int, mixed bool, nss [][]byte) []genTx {
	var normals, blobtxs []genTx
	off := 0 // running length of the delimited stream of ordinary transactions
	for i := 0; i < nNormal; i++ {
		l := compactLen(r, 2000)
		room := 474 - off
		if off >= 474 {
			room = 478 - (off-474)%478
		}
		switch r.Intn(10) {
		case 0, 1:
			// end exactly on, or one to four bytes past, the end of the current share (a first share holds four
			// bytes less than a continuation share: a room computed with the wrong one is off by up to four)
			l = room - 2 + r.Intn(6)
			if l < 128 {
				l = room - 1 + r.Intn(6)
			}
		case 3:
			// cross one or two share boundaries and end exactly on (or one byte around) a later share end
			l = room + 478*(1+r.Intn(2)) - 2 + r.Intn(3) - 1
		case 2:
			// a length on a varint-width boundary; the next transaction then tends to be a boundary filler
			l = pick(r, []int{127, 128, 129, 16383, 16384, 16385})
		}
		if l < 1 {
			l = 1
		}
		t := normalTx(r, l)
		if emptyTxOK && r.Intn(14) == 0 {
			// a zero-length ordinary transaction (one delimiter byte 0x00 in the compact sequence); only for
			// the properties that quantify over ALL transaction lists - C02/C09/C11/C12 speak of non-empty ones
			t = []byte{}
		}
		if almostBlobOK && r.Intn(14) == 0 {
			// an ORDINARY transaction that starts like a blob transaction: a canonical blob tx followed by a
			// truncated field (tag 0x08 without a value), or with its last byte cut - not a blob tx for any
			// decoder that follows the wire format, whatever fields it managed to read before failing
			b := randBlob(r, nss, 300)
			enc := blobTxOf(r, []genBlob{b})
			if r.Bool(60) {
				t = append(append([]byte{}, enc...), 0x08)
			} else {
				t = append([]byte{}, enc[:len(enc)-1]...)
			}
		}
		if almostBlobOK && r.Intn(20) == 0 {
			// an ORDINARY transaction that is a complete, well-formed blob transaction message with valid blobs -
			// except that its type id is not exactly "BLOB" (a longer id with that prefix, another case, one
			// letter off): only the exact id makes a blob transaction
			b := randBlob(r, nss, 300)
			enc := blobTxOf(r, []genBlob{b})
			id := pick(r, []string{"BLOB/2", "BLOBX", "BLOB ", "blob", "BLOC", "BLO"})
			if len(enc) > 6 && string(enc[len(enc)-4:]) == "BLOB" {
				t = append(append([]byte{}, enc[:len(enc)-6]...), pbBytes(3, []byte(id))...)
			}
		}
		if almostBlobOK && r.Intn(16) == 0 {
			// an ORDINARY transaction shaped like a protobuf message with a bytes field 1, a bytes field 2 that
			// is NOT a blob, and no (or another) type id - what an unsigned sdk transaction looks like: it parses
			// under the BlobTx schema up to the type id check and must then be treated as ordinary
			// field 2 is itself a well-formed message with bytes fields 1 and 2 (as BlobProto has), but not a
			// valid blob (namespace id of the wrong length)
			f2 := append(pbBytes(1, r.Bytes(1+r.Intn(20))), pbBytes(2, r.Bytes(1+r.Intn(40)))...)
			if r.Bool(30) {
				f2 = r.Bytes(1 + r.Intn(60))
			}
			t = append(pbBytes(1, r.Bytes(1+r.Intn(80))), pbBytes(2, f2)...)
			switch r.Intn(3) {
			case 1:
				t = append(t, pbBytes(3, []byte("BLOC"))...)
			case 2:
				t = append(t, pbBytes(3, nil)...)
			}
		}
		if len(normals) > 0 && r.Intn(12) == 0 {
			// a byte-identical copy of an earlier ordinary transaction (lookups keyed by content)
			t = append([]byte(nil), normals[r.Intn(len(normals))].raw...)
		}
		off += len(t)
		for v := len(t); ; v >>= 7 {
			off++
			if v < 128 {
				break
			}
		}
		normals = append(normals, genTx{raw: t})
	}
	for i := 0; i < nBlobTx; i++ {
		k := 1
		if r.Bool(40) {
			k = 1 + r.Intn(4)
		}
		blobs := make([]genBlob, k)
		for j := range blobs {
			blobs[j] = randBlob(r, nss, maxBlobLen)
		}
		blobtxs = append(blobtxs, genTx{raw: blobTxOf(r, blobs), blobs: blobs})
	}
	out := append(normals, blobtxs...)
	if mixed {
		// shuffle
		for i := len(out) - 1; i > 0; i-- {
			j := r.Intn(i + 1)
			out[i], out[j] = out[j], out[i]
		}
	}
	return out
}

func rawsOf(l []genTx) [][]byte {
	out := make([][]byte, len(l))
	for i, t := range l {
		out[i] = t.raw
	}
	return out
}
