(* C17: the modelled read paths do not modify pre-existing memory, write only to
   blocks they allocated, compute what the pure model computes; the pre-fix
   ParseBlobs does modify its input; read-only threads do not conflict. *)
From Coq Require Import List Arith NArith Lia Bool.
From GS.Model Require Import Base Varint Namespace ShareFmt Blob Sparse Compact Square Mem.
From GS.Proofs Require Import BaseLemmas.
Import ListNotations.
Open Scope nat_scope.

(* ================================================================== *)
(* 1. The read-only discipline                                         *)
(* ================================================================== *)

(* a log entry respects the discipline for the first [n0] blocks: it is a read,
   or a write to a block with id >= n0 *)
Definition wfresh (n0 : nat) (a : access) : Prop := a_kind a = AW -> n0 <= a_blk a.

(* [st'] extends [st] without touching the first n0 blocks *)
Definition ext (n0 : nat) (st st' : mstate) : Prop :=
  firstn n0 (st_heap st') = firstn n0 (st_heap st) /\
  length (st_heap st) <= length (st_heap st') /\
  (Forall (wfresh n0) (st_log st) -> Forall (wfresh n0) (st_log st')).

(* a slice that may be appended to: no capacity at all, or in a block >= n0 *)
Definition safe (n0 : nat) (s : slice) : Prop := sl_cap s = 0 \/ n0 <= sl_blk s.

(* a computation respects the discipline and its result satisfies P *)
Definition ro (n0 : nat) {A} (P : A -> Prop) (m : M A) : Prop :=
  forall st, n0 <= length (st_heap st) ->
    ext n0 st (fst (m st)) /\ forall a, snd (m st) = Ok a -> P a.

Lemma ext_refl n0 st : ext n0 st st.
Proof. repeat split; auto. Qed.

Lemma ext_trans n0 a b c : ext n0 a b -> ext n0 b c -> ext n0 a c.
Proof.
  intros (H1 & H2 & H3) (K1 & K2 & K3). repeat split.
  - congruence.
  - lia.
  - auto.
Qed.

Lemma ext_len n0 st st' : n0 <= length (st_heap st) -> ext n0 st st' -> n0 <= length (st_heap st').
Proof. intros H (_ & L & _). lia. Qed.

Lemma ext_log_read n0 s st : ext n0 st (log_read s st).
Proof.
  repeat split; auto. intros H. cbn. constructor; auto. intros K; discriminate K.
Qed.

Lemma length_upd_nth {A} (f : A -> A) : forall l n, length (upd_nth n f l) = length l.
Proof. induction l as [|x l IH]; intros [|n]; cbn; auto. Qed.

Lemma firstn_cons_S {A} (x : A) n l : firstn (S n) (x :: l) = x :: firstn n l.
Proof. reflexivity. Qed.

Lemma firstn_upd_nth_ge {A} (f : A -> A) : forall l n b, n <= b -> firstn n (upd_nth b f l) = firstn n l.
Proof.
  induction l as [|x l IH]; intros n b H.
  - destruct b; reflexivity.
  - destruct n as [|n].
    + rewrite !firstn_O. reflexivity.
    + destruct b as [|b]; [lia|]. cbn [upd_nth]. rewrite !firstn_cons_S. f_equal. apply IH. lia.
Qed.

Lemma firstn_app_le {A} (l x : list A) n : n <= length l -> firstn n (l ++ x) = firstn n l.
Proof.
  intros H. rewrite firstn_app. replace (n - length l) with 0 by lia.
  rewrite firstn_O. apply app_nil_r.
Qed.

Lemma safe_nil n0 : safe n0 nil_slice.
Proof. left; reflexivity. Qed.

Lemma safe_mslice2 n0 s lo hi r : safe n0 s -> mslice2 s lo hi = Ok r -> safe n0 r.
Proof.
  unfold mslice2. intros H. destruct (_ && _); intros K; inversion K; subst; clear K.
  destruct H as [H|H]; [left|right]; cbn; auto. rewrite H. reflexivity.
Qed.

(* append respects the discipline when the destination is safe *)
Lemma mappend_lit_ext n0 g dst data st :
  n0 <= length (st_heap st) -> safe n0 dst ->
  ext n0 st (fst (mappend_lit g dst data st)) /\ safe n0 (snd (mappend_lit g dst data st)).
Proof.
  intros L S. unfold mappend_lit. destruct data as [|d0 data].
  - cbn. split; [apply ext_refl|assumption].
  - set (dd := d0 :: data).
    destruct (Nat.leb (sl_len dst + length dd) (sl_cap dst)) eqn:E.
    + apply Nat.leb_le in E. assert (LD : 1 <= length dd) by (cbn; lia).
      destruct S as [S|S]; [lia|].
      cbn [fst snd]. split.
      * repeat split; cbn.
        -- unfold hwrite. apply firstn_upd_nth_ge. assumption.
        -- unfold hwrite. rewrite length_upd_nth. lia.
        -- intros H. constructor; auto. intros _. cbn. assumption.
      * right. cbn. assumption.
    + cbn [fst snd]. split.
      * repeat split; cbn.
        -- apply firstn_app_le. assumption.
        -- rewrite app_length. lia.
        -- intros H. constructor; [intros _; cbn; assumption|].
           constructor; auto. intros K; discriminate K.
      * right. cbn. assumption.
Qed.

Lemma ro_ret n0 {A} (P : A -> Prop) a : P a -> ro n0 P (mret a).
Proof. intros H st L. cbn. split; [apply ext_refl|]. intros b K. inversion K; subst; auto. Qed.

Lemma ro_lift n0 {A} (P : A -> Prop) o : (forall a, o = Ok a -> P a) -> ro n0 P (mlift o).
Proof. intros H st L. cbn. split; [apply ext_refl|assumption]. Qed.

Lemma ro_err n0 {A} (P : A -> Prop) : ro n0 P (mlift Err).
Proof. apply ro_lift. intros a K; discriminate K. Qed.

Lemma ro_bind n0 {A B} (P : A -> Prop) (Q : B -> Prop) (m : M A) (f : A -> M B) :
  ro n0 P m -> (forall a, P a -> ro n0 Q (f a)) -> ro n0 Q (mbind m f).
Proof.
  intros Hm Hf st L. unfold mbind. specialize (Hm st L).
  destruct (m st) as [st1 o]. cbn [fst snd] in Hm. destruct Hm as [E Pa].
  destruct o as [a| |].
  - specialize (Hf a (Pa a eq_refl) st1 (ext_len _ _ _ L E)). destruct Hf as [E2 Qb].
    split; [eapply ext_trans; eassumption|assumption].
  - cbn. split; [assumption|]. intros b K; discriminate K.
  - cbn. split; [assumption|]. intros b K; discriminate K.
Qed.

Lemma ro_weaken n0 {A} (P Q : A -> Prop) (m : M A) :
  ro n0 P m -> (forall a, P a -> Q a) -> ro n0 Q m.
Proof. intros H W st L. destruct (H st L) as [E Pa]. split; auto. Qed.

Lemma ro_mread n0 s : ro n0 (fun _ => True) (mread s).
Proof. intros st L. cbn. split; [apply ext_log_read|auto]. Qed.

Lemma ro_mappend n0 g dst src : safe n0 dst -> ro n0 (safe n0) (mappend g dst src).
Proof.
  intros S st L. unfold mappend.
  pose proof (mappend_lit_ext n0 g dst (mread_bytes (st_heap st) src) (log_read src st) L S) as [E S'].
  destruct (mappend_lit g dst _ _) as [st' d]. cbn [fst snd] in *. split.
  - eapply ext_trans; [apply ext_log_read|exact E].
  - intros a K. inversion K; subst. assumption.
Qed.

Lemma ro_mcopy_fresh n0 g s : ro n0 (safe n0) (mcopy_fresh g s).
Proof. apply ro_mappend. apply safe_nil. Qed.

Lemma ro_mmap n0 {A B} (P : B -> Prop) (f : A -> M B) l :
  (forall x, ro n0 P (f x)) -> ro n0 (Forall P) (mmap f l).
Proof.
  intros H. induction l as [|x l IH]; cbn [mmap].
  - apply ro_ret. constructor.
  - eapply ro_bind; [apply H|]. intros y Py.
    eapply ro_bind; [apply IH|]. intros ys Pys. apply ro_ret. constructor; assumption.
Qed.

(* what [ro] gives for a run that starts in a heap [h] with an empty log *)
Lemma ro_run {A} (P : A -> Prop) (m : M A) h :
  ro (length h) P m ->
  firstn (length h) (st_heap (fst (m (mk_st h [])))) = h /\
  Forall (wfresh (length h)) (st_log (fst (m (mk_st h [])))).
Proof.
  intros H. destruct (H (mk_st h []) (le_n _)) as [(E & _ & W) _]. cbn in E, W. split.
  - rewrite E. apply firstn_all.
  - apply W. constructor.
Qed.

(* ---- ParseBlobs ---- *)

Definition seqs_safe n0 (seqs : list mseq) : Prop := Forall (fun q => safe n0 (m_data q)) seqs.

Lemma ro_parse_sparse_step n0 g v seqs :
  seqs_safe n0 seqs -> ro n0 (seqs_safe n0) (parse_sparse_step g true v seqs).
Proof.
  intros S. unfold parse_sparse_step.
  eapply ro_bind; [apply ro_mread|]. intros sh _.
  destruct (negb (sh_version_supported sh)); [apply ro_err|].
  destruct (sh_is_padding sh); [apply ro_ret; assumption|].
  eapply ro_bind; [apply ro_lift with (P := fun _ => True); auto|]. intros raw _.
  destruct (sh_start sh).
  - eapply ro_bind; [apply ro_lift with (P := fun _ => True); auto|]. intros nsv _.
    eapply ro_bind; [apply ro_lift with (P := fun _ => True); auto|]. intros sg _.
    eapply ro_bind; [apply ro_mcopy_fresh|]. intros data Sd.
    apply ro_ret. constructor; assumption.
  - destruct seqs as [|q older]; [apply ro_err|].
    inversion S; subst.
    eapply ro_bind; [apply ro_mappend; assumption|]. intros d Sd.
    apply ro_ret. constructor; assumption.
Qed.

Lemma ro_parse_sparse_loop n0 g : forall views seqs,
  seqs_safe n0 seqs -> ro n0 (seqs_safe n0) (parse_sparse_loop_mem g true views seqs).
Proof.
  induction views as [|v tl IH]; intros seqs S; cbn [parse_sparse_loop_mem].
  - apply ro_ret. assumption.
  - eapply ro_bind; [apply ro_parse_sparse_step; assumption|]. intros s' S'. apply IH. assumption.
Qed.

Lemma ro_mread_opt n0 o : ro n0 (fun _ => True) (mread_opt o).
Proof.
  destruct o as [s|]; cbn [mread_opt].
  - eapply ro_bind; [apply ro_mread|]. intros b _. apply ro_ret. exact I.
  - apply ro_ret. exact I.
Qed.

Lemma ro_finish_mseq n0 q : ro n0 (fun _ => True) (finish_mseq q).
Proof.
  unfold finish_mseq. destruct (N.ltb _ _); [apply ro_err|].
  eapply ro_bind; [apply ro_lift with (P := fun _ => True); auto|]. intros d _.
  eapply ro_bind; [apply ro_mread|]. intros nsb _.
  eapply ro_bind; [apply ro_mread|]. intros db _.
  eapply ro_bind; [apply ro_mread_opt|]. intros sgb _.
  apply ro_lift. auto.
Qed.

Lemma ro_parse_blobs_mem n0 g views : ro n0 (fun _ => True) (parse_blobs_mem g views).
Proof.
  unfold parse_blobs_mem, parse_blobs_gen.
  eapply ro_bind; [apply ro_parse_sparse_loop; constructor|]. intros seqs _.
  eapply ro_weaken; [apply ro_mmap with (P := fun _ => True); intros q; apply ro_finish_mseq|auto].
Qed.

(* ---- Sequence.RawData ---- *)

Lemma ro_seq_accumulate n0 g : forall views acc,
  safe n0 acc -> ro n0 (safe n0) (seq_accumulate g views acc).
Proof.
  induction views as [|v tl IH]; intros acc S; cbn [seq_accumulate].
  - apply ro_ret. assumption.
  - eapply ro_bind; [apply ro_mread|]. intros sh _.
    eapply ro_bind; [apply ro_lift with (P := fun _ => True); auto|]. intros raw _.
    eapply ro_bind; [apply ro_mappend; assumption|]. intros acc' S'. apply IH. assumption.
Qed.

Lemma ro_sequence_raw_data_mem n0 g views : ro n0 (fun _ => True) (sequence_raw_data_mem g views).
Proof.
  unfold sequence_raw_data_mem.
  eapply ro_bind; [apply ro_seq_accumulate; apply safe_nil|]. intros data _.
  destruct views as [|first tl]; [apply ro_err|].
  eapply ro_bind; [apply ro_mread|]. intros fsh _.
  destruct (N.ltb _ _); [apply ro_err|].
  eapply ro_bind; [apply ro_lift with (P := fun _ => True); auto|]. intros d _.
  apply ro_mread.
Qed.

(* ---- extractRawData ---- *)

Lemma ro_extract_raw_data_mem n0 g : forall views found acc,
  safe n0 acc -> ro n0 (safe n0) (extract_raw_data_mem g found views acc).
Proof.
  induction views as [|v tl IH]; intros found acc S; cbn [extract_raw_data_mem].
  - apply ro_ret. assumption.
  - eapply ro_bind; [apply ro_mread|]. intros sh _.
    destruct found.
    + eapply ro_bind; [apply ro_lift with (P := fun _ => True); auto|]. intros raw _.
      eapply ro_bind; [apply ro_mappend; assumption|]. intros acc' S'. apply IH. assumption.
    + eapply ro_bind; [apply ro_lift with (P := fun _ => True); auto|]. intros raw _.
      eapply ro_bind; [apply ro_mappend; assumption|]. intros acc' S'. apply IH. assumption.
Qed.

(* ---- parseDelimiter: the zero padding lands in a block >= n0 when the input is safe ---- *)

Lemma parse_delimiter_mem_ext n0 g input st :
  n0 <= length (st_heap st) -> safe n0 input ->
  ext n0 st (fst (parse_delimiter_mem g input st)) /\
  forall rest ul, snd (parse_delimiter_mem g input st) = MDelimOk rest ul -> safe n0 rest.
Proof.
  intros L S. unfold parse_delimiter_mem.
  destruct (Nat.eqb (sl_len input) 0).
  { cbn. split; [apply ext_refl|]. intros rest ul K. inversion K; subst. assumption. }
  set (l := Nat.min 10 (sl_len input)).
  destruct (mslice2 input 0 l) as [head| |] eqn:EH;
    try (cbn; split; [apply ext_refl|intros rest ul K; discriminate K]).
  assert (SH : safe n0 head) by (eapply safe_mslice2; eassumption).
  set (st1 := log_read head st).
  assert (E1 : ext n0 st st1) by apply ext_log_read.
  assert (L1 : n0 <= length (st_heap st1)) by exact L.
  destruct (match uvarint (mread_bytes (st_heap st) head) with UvShort => Nat.ltb l 10 | _ => false end).
  { cbn. split; [assumption|]. intros rest ul K; discriminate K. }
  assert (P2 : exists st2 delim,
     (if Nat.leb 10 l then (st1, head) else mappend_lit g head (zeros (10 - l)) st1) = (st2, delim)
     /\ ext n0 st st2).
  { destruct (Nat.leb 10 l).
    - exists st1, head. split; auto.
    - pose proof (mappend_lit_ext n0 g head (zeros (10 - l)) st1 L1 SH) as [E2 _].
      destruct (mappend_lit g head (zeros (10 - l)) st1) as [st2 delim]. exists st2, delim.
      split; auto. eapply ext_trans; eassumption. }
  destruct P2 as (st2 & delim & EQ & E2). rewrite EQ.
  set (st3 := log_read delim st2).
  assert (E3 : ext n0 st st3) by (eapply ext_trans; [exact E2|apply ext_log_read]).
  destruct (read_uvarint (mread_bytes (st_heap st2) delim)) as [[dl rest0]| |];
    try (cbn; split; [assumption|intros rest ul K; discriminate K]).
  destruct (mslice2 input (length (put_uvarint dl)) (sl_len input)) as [rest| |] eqn:ER;
    try (cbn; split; [assumption|intros rest' ul K; discriminate K]).
  cbn. split; [assumption|]. intros rest' ul K. inversion K; subst.
  eapply safe_mslice2; [exact S|exact ER].
Qed.

(* ---- parseRawData ---- *)

Lemma ro_parse_raw_data_mem n0 g : forall fuel raw,
  safe n0 raw -> ro n0 (fun _ => True) (parse_raw_data_mem g fuel raw).
Proof.
  induction fuel as [|f IH]; intros raw S st L; cbn [parse_raw_data_mem].
  - cbn. split; [apply ext_refl|auto].
  - pose proof (parse_delimiter_mem_ext n0 g raw st L S) as [E SR].
    destruct (parse_delimiter_mem g raw st) as [st1 [actual ul| | |]]; cbn [fst snd] in *;
      try solve [split; [assumption|auto]].
    destruct (N.eqb ul 0); [cbn; split; [assumption|auto]|].
    destruct (N.ltb _ _); [cbn; split; [assumption|auto]|].
    destruct (mslice2 actual (N.to_nat ul) (sl_len actual)) as [rest| |] eqn:ER;
      try solve [cbn; split; [assumption|auto]].
    destruct (mslice2 actual 0 (N.to_nat ul)) as [unit| |] eqn:EU;
      try solve [cbn; split; [assumption|auto]].
    assert (SA : safe n0 actual) by (eapply SR; reflexivity).
    assert (SRest : safe n0 rest) by (eapply safe_mslice2; eassumption).
    assert (R : ro n0 (fun _ : list slice => True)
                  (mdo us <- parse_raw_data_mem g f rest; mret (unit :: us))).
    { eapply ro_bind; [apply IH; assumption|]. intros us _. apply ro_ret. exact I. }
    destruct (R st1 (ext_len _ _ _ L E)) as [E2 _]. split; [exact (ext_trans _ _ _ _ E E2)|auto].
Qed.
