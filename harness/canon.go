package main

// Canonical text forms shared with runner/driver.ml.

import (
	"crypto/md5"
	"encoding/binary"
	"encoding/hex"
	"fmt"
	"os"
	"strconv"
	"strings"

	"github.com/celestiaorg/go-square/v2/share"
)

var fullOutput = os.Getenv("VERIF_FULL") == "1"

func hx(b []byte) string {
	if len(b) == 0 {
		return "-"
	}
	return hex.EncodeToString(b)
}

func unhx(s string) []byte {
	if s == "-" {
		return []byte{}
	}
	b, err := hex.DecodeString(s)
	if err != nil {
		panic("bad hex: " + s)
	}
	return b
}

func splitList(s string) []string {
	if s == "" {
		return nil
	}
	return strings.Split(s, ",")
}

func hexList(s string) [][]byte {
	parts := splitList(s)
	out := make([][]byte, len(parts))
	for i, p := range parts {
		out[i] = unhx(p)
	}
	return out
}

func showList[T any](f func(T) string, l []T) string {
	parts := make([]string, len(l))
	for i, x := range l {
		parts[i] = f(x)
	}
	return "[" + strings.Join(parts, ",") + "]"
}

func showBool(b bool) string {
	if b {
		return "1"
	}
	return "0"
}

func digestList(l [][]byte) string {
	h := md5.New()
	var lenbuf [8]byte
	for _, b := range l {
		binary.BigEndian.PutUint64(lenbuf[:], uint64(len(b)))
		h.Write(lenbuf[:])
		h.Write(b)
	}
	return hex.EncodeToString(h.Sum(nil))
}

func showBigList(l [][]byte) string {
	if fullOutput {
		return showList(hx, l)
	}
	return fmt.Sprintf("#%d:%s", len(l), digestList(l))
}

func joinHexList(l [][]byte) string {
	parts := make([]string, len(l))
	for i, x := range l {
		parts[i] = hx(x)
	}
	return strings.Join(parts, ",")
}

func showSigner(s []byte) string {
	if s == nil {
		return "nil"
	}
	return hx(s)
}

func parseSigner(s string) []byte {
	if s == "nil" {
		return nil
	}
	return unhx(s)
}

func showBlob(b *share.Blob) string {
	return fmt.Sprintf("%s:%d:%s:%s", hx(b.Namespace().Bytes()), b.ShareVersion(), showSigner(b.Signer()), hx(b.Data()))
}

// blobSpec is the text form ns:ver:signer:data
func blobSpec(ns []byte, ver uint8, signer []byte, data []byte) string {
	return fmt.Sprintf("%s:%d:%s:%s", hx(ns), ver, showSigner(signer), hx(data))
}

func blobOfString(s string) *share.Blob {
	p := strings.Split(s, ":")
	if len(p) != 4 {
		panic("bad blob " + s)
	}
	ver, _ := strconv.Atoi(p[1])
	b, err := share.NewBlob(nsOf(unhx(p[0])), unhx(p[3]), uint8(ver), parseSigner(p[2]))
	if err != nil {
		panic("harness sent a blob that NewBlob rejects: " + err.Error())
	}
	return b
}

// nsOf builds a Namespace value holding exactly the given bytes, without validation
// (through the accessor of a share; an empty slice gives the zero Namespace).
func nsOf(b []byte) share.Namespace {
	if len(b) == 0 {
		return share.Namespace{}
	}
	if len(b) != share.NamespaceSize {
		panic("nsOf needs 29 bytes")
	}
	raw := make([]byte, share.ShareSize)
	copy(raw, b)
	sh, err := share.NewShare(raw)
	if err != nil {
		panic(err)
	}
	ns := sh.Namespace()
	return ns
}

func sharesOf(raws [][]byte) []share.Share {
	out := make([]share.Share, len(raws))
	for i, r := range raws {
		sh, err := share.NewShare(r)
		if err != nil {
			panic("harness sent a share that is not 512 bytes")
		}
		out[i] = *sh
	}
	return out
}

func rawShares(shs []share.Share) [][]byte {
	return share.ToBytes(shs)
}

func atoi(s string) int {
	v, err := strconv.ParseInt(s, 10, 64)
	if err != nil {
		panic("bad int " + s)
	}
	return int(v)
}

func atou(s string) uint64 {
	v, err := strconv.ParseUint(s, 10, 64)
	if err != nil {
		panic("bad uint " + s)
	}
	return v
}
