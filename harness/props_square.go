package main

// Generators and direct oracles for the square-level properties:
// C01 C02 C03 C04 C06 C07 C12 C14 C20.

import (
	"encoding/binary"
	"bytes"
	"crypto/md5"
	"crypto/sha256"
	"fmt"
	"google.golang.org/protobuf/encoding/protowire"
	"sort"
	"strconv"
	"strings"

	square "github.com/celestiaorg/go-square/v2"
	"github.com/celestiaorg/go-square/v2/inclusion"
	"github.com/celestiaorg/go-square/v2/share"
	"github.com/celestiaorg/go-square/v2/tx"
)

var (
	txNs   = share.TxNamespace.Bytes()
	pfbNs  = share.PayForBlobNamespace.Bytes()
	prpNs  = share.PrimaryReservedPaddingNamespace.Bytes()
	tailNs = share.TailPaddingNamespace.Bytes()
)

func init() {
	generators["C01"] = genC01
	generators["C02"] = genC02
	generators["C03"] = genC03
	generators["C04"] = genC04
	generators["C06"] = genC06
	generators["C07"] = genC07
	generators["C12"] = genC12
	generators["C14"] = genC14
	generators["C20"] = genC20
}

type sqCase struct {
	txs      []genTx
	max, thr int
}

func (s sqCase) shape() string {
	var sb strings.Builder
	fmt.Fprintf(&sb, "max=%d thr=%d:", s.max, s.thr)
	for _, t := range s.txs {
		if t.blobs == nil {
			fmt.Fprintf(&sb, " n%d", len(t.raw))
		} else {
			sb.WriteString(" b(")
			for i, b := range t.blobs {
				if i > 0 {
					sb.WriteString(",")
				}
				fmt.Fprintf(&sb, "v%d:%d:%x", b.ver, len(b.data), b.ns[26:])
			}
			sb.WriteString(")")
		}
	}
	return sb.String()
}

// nonCanonicalOK: whether randSquareCase may re-encode blob transactions non-canonically (off for C02,
// which compares Deconstruct's canonical re-encoding with the input bytes)
var nonCanonicalOK = true

// forceManyBlobs: when set, randSquareCase always produces its "many small blobs" family
var forceManyBlobs = false

// nonCanonical re-encodes the top-level fields of a marshalled BlobTx: type id first or in the middle,
// an unknown varint / bytes field inserted, the type id duplicated.
func nonCanonical(r *Rng, raw []byte) []byte {
	type field struct{ b []byte }
	var fs []field
	rest := raw
	for len(rest) > 0 {
		num, typ, n := protowire.ConsumeTag(rest)
		if n < 0 {
			return raw
		}
		m := protowire.ConsumeFieldValue(num, typ, rest[n:])
		if m < 0 {
			return raw
		}
		fs = append(fs, field{append([]byte{}, rest[:n+m]...)})
		rest = rest[n+m:]
	}
	if len(fs) < 2 {
		return raw
	}
	last := fs[len(fs)-1] // the type id
	body := fs[:len(fs)-1]
	var out []field
	switch r.Intn(4) {
	case 0: // type id first
		out = append([]field{last}, body...)
	case 1: // type id in the middle, unknown varint field 15 at the end
		k := 1 + r.Intn(len(body))
		out = append(append(append([]field{}, body[:k]...), last), body[k:]...)
		out = append(out, field{protowire.AppendVarint(protowire.AppendTag(nil, 15, protowire.VarintType), uint64(r.Intn(1000)))})
	case 2: // unknown bytes field 9 after the type id - now and then a LARGE one: the raw transaction is then far
		// longer than anything of it that reaches the square (its cost is the estimate of its content, not its length)
		pay := r.Bytes(r.Intn(12))
		if r.Intn(3) == 0 {
			pay = r.Bytes(1100 + r.Intn(9000))
		}
		out = append(append([]field{}, fs...), field{protowire.AppendBytes(protowire.AppendTag(nil, 9, protowire.BytesType), pay)})
	default: // duplicated type id (last wins, same value)
		out = append(append([]field{last}, body...), last)
	}
	var res []byte
	for _, f := range out {
		res = append(res, f.b...)
	}
	return res
}

// sameLengthPairCase: two blobs adjacent in namespace order with the SAME data length, share version 0 then 1,
// the length in the last 20 bytes before a share boundary - the signer costs the version-1 blob one more share -
// and the share count at a step of the subtree width (1|2, 2|3, 4|5 for small thresholds, 64|65 for threshold 64).
func sameLengthPairCase(r *Rng, nss [][]byte, ordered bool, max int) ([]genTx, int, int) {
	thr := pick(r, []int{1, 2, 64})
	n := pick(r, []int{1, 2, 4})
	if thr == 64 {
		n = 64
		max = pick(r, []int{16, 32})
	} else if max < 8 {
		max = 8
	}
	dl := 478 + 482*(n-1) - r.Intn(20)
	ns := nss[0]
	mk := func(ver uint8) genBlob {
		b := genBlob{ns: ns, ver: ver, data: r.Bytes(dl)}
		if ver == 1 {
			b.signer = randSigner(r)
		}
		return b
	}
	var l []genTx
	if !ordered && r.Bool(50) {
		l = append(l, genTx{raw: r.Bytes(1 + r.Intn(600))})
	}
	lead := randBlob(r, nss, 700)
	lead.ns = ns // a blob before the pair so that the cursor is not already a multiple of the larger width
	b0, b1 := mk(0), mk(1)
	if r.Bool(50) {
		bl := []genBlob{lead, b0, b1}
		l = append(l, genTx{raw: blobTxOf(r, bl), blobs: bl})
	} else {
		bl0 := []genBlob{lead, b0}
		bl1 := []genBlob{b1}
		l = append(l, genTx{raw: blobTxOf(r, bl0), blobs: bl0}, genTx{raw: blobTxOf(r, bl1), blobs: bl1})
	}
	return l, thr, max
}

// randSquareCase: a transaction list and configuration.  `ordered` puts the
// normal transactions first (as Construct requires); `tight` picks the maximum
// so that a good share of cases refuses appends.
func randSquareCase(c *Ctx, r *Rng, ordered, tight bool) sqCase {
	maxes := []int{1, 2, 4, 8, 16, 32}
	if c.tier == "thorough" {
		maxes = append(maxes, 64)
	}
	max := pick(r, maxes)
	thr := pick(r, []int{1, 2, 3, 5, 64, 64, 64})
	nss := blobNamespaces(r, 2+r.Intn(4))
	capacity := max * max
	var nNormal, nBlob int
	switch r.Intn(6) {
	case 0:
		nNormal = r.Intn(6)
	case 1:
		nBlob = 1 + r.Intn(5)
	default:
		nNormal = r.Intn(8)
		nBlob = r.Intn(7)
	}
	maxBlob := capacity * 482 / 3
	if maxBlob > 14000 {
		maxBlob = 14000
	}
	if maxBlob < 600 {
		maxBlob = 600
	}
	if !tight && max < 8 {
		max = 8 + 8*r.Intn(2)
	}
	txs := randTxList(r, nNormal, nBlob, maxBlob, !ordered, nss)
	if r.Intn(7) == 0 || forceManyBlobs {
		// many small blobs: 13-60 blobs over 2-3 interleaved namespaces, several per transaction
		// (sorting more than 12 elements; equal namespaces within and across transactions)
		max = pick(r, []int{16, 32})
		few := nss[:min(len(nss), 2+r.Intn(2))]
		var many []genTx
		total := 13 + r.Intn(48)
		for total > 0 {
			k := 1 + r.Intn(6)
			if k > total {
				k = total
			}
			total -= k
			blobs := make([]genBlob, k)
			for j := range blobs {
				blobs[j] = randBlob(r, few, 700)
				if r.Bool(70) {
					blobs[j].data = r.Bytes(1 + r.Intn(500))
				}
			}
			many = append(many, genTx{raw: blobTxOf(r, blobs), blobs: blobs})
		}
		var keepNormals []genTx
		for _, t := range txs {
			if t.blobs == nil {
				keepNormals = append(keepNormals, t)
			}
		}
		txs = append(keepNormals, many...)
		if !ordered {
			for i := len(txs) - 1; i > 0; i-- {
				j := r.Intn(i + 1)
				txs[i], txs[j] = txs[j], txs[i]
			}
		}
		c.count("many_blobs")
	}
	if tight && r.Intn(9) == 0 {
		// one blob transaction that fills the whole maximum square by itself: max*max - 1 completely full
		// blob shares (478 bytes in a first share, 482 in continuation shares) behind a one-share PFB, so the
		// estimate is exactly max*max and the encoded transaction is longer than the square's payload capacity;
		// followed by transactions that no longer fit
		max = pick(r, []int{2, 4, 8})
		thr = 64
		var l []genTx
		for pfbShares := 1; pfbShares <= 3 && l == nil; pfbShares++ {
			left := max*max - pfbShares
			var blobs []genBlob
			for left > 0 {
				k := 1
				if left > 1 && r.Bool(30) {
					k = 1 + r.Intn(min(left, 3))
				}
				b := randBlob(r, nss, 100)
				b.ver = 0
				b.signer = nil
				b.data = r.Bytes(478 + 482*(k-1))
				blobs = append(blobs, b)
				left -= k
			}
			sizes := make([]uint32, len(blobs))
			for j := range blobs {
				sizes[j] = uint32(len(blobs[j].data))
			}
			raw := blobTxWithInner(mockPFB(r.Bytes(mockPFBExtraBytes), sizes), blobs) // inner tx in the mock PFB format
			if refEstimate(nil, []refTx{classify(raw)}, thr) == max*max {
				l = []genTx{{raw: raw, blobs: blobs}}
			}
		}
		if l != nil {
			for k := r.Intn(3); k > 0; k-- {
				l = append(l, genTx{raw: r.Bytes(1 + r.Intn(200))})
			}
			if ordered { // Construct wants ordinary transactions first
				l = append(l[1:], l[0])
			}
			txs = l
		}
		c.count("square_filling_blob_tx")
	}
	if r.Intn(10) == 0 {
		txs, thr, max = sameLengthPairCase(r, nss, ordered, max)
		c.count("same_length_v0_v1_pair")
	}
	if nonCanonicalOK && r.Intn(5) == 0 {
		// blob transactions in valid but non-canonical protobuf encodings (fields reordered, unknown fields,
		// a duplicated type id): still the same blob transaction for every decoder that follows the wire format
		for i := range txs {
			if txs[i].blobs != nil && r.Bool(50) {
				txs[i].raw = nonCanonical(r, txs[i].raw)
				c.count("non_canonical_blob_tx")
			}
		}
	}
	if tight && !ordered && r.Intn(9) == 0 {
		// ordinary transactions that end EXACTLY on a compact share boundary (>= 1 full share), then one of at
		// least a whole share that no longer fits (refused), then small ones that do
		max = pick(r, []int{2, 4})
		k := 1 + r.Intn(max*max-1) // shares filled exactly
		var l []genTx
		first := alignedTxLen(0, 474+478*(k-1)-2, 0)
		if k > 1 && r.Bool(50) {
			a := 100 + r.Intn(300)
			l = append(l, genTx{raw: r.Bytes(a)})
			first = alignedTxLen(a+len(uvarint(uint64(a))), 474+478*(k-1)-a-4, 0)
		}
		l = append(l, genTx{raw: r.Bytes(first)})
		l = append(l, genTx{raw: r.Bytes(478*(max*max-k) + 100 + r.Intn(600))}) // too large for what is left
		l = append(l, genTx{raw: r.Bytes(1 + r.Intn(200))}, genTx{raw: r.Bytes(1 + r.Intn(200))})
		txs = l
		c.count("exact_fill_then_refused_large")
	}
	if tight && !ordered && r.Intn(6) == 0 {
		// refused appends whose wrapped PFB (or ordinary tx) would still fit the open compact share:
		// small-blob transactions with 60..300-byte inner txs, interleaved with transactions refused only
		// because of their blobs (far larger than the square) - bytes wrongly left behind by a refusal
		// surface when a later accepted append crosses a compact share boundary
		max = pick(r, []int{4, 8})
		huge := max * max * 482
		var l []genTx
		n := 4 + r.Intn(6)
		for i := 0; i < n; i++ {
			inner := r.Bytes(60 + r.Intn(240))
			if r.Bool(35) {
				b := randBlob(r, nss, 100)
				b.data = r.Bytes(huge + r.Intn(500))
				bl := []genBlob{b}
				l = append(l, genTx{raw: blobTxWithInner(inner, bl), blobs: bl})
			} else if r.Bool(25) {
				l = append(l, genTx{raw: r.Bytes(40 + r.Intn(200))})
			} else {
				b := randBlob(r, nss, 100)
				b.data = r.Bytes(1 + r.Intn(300))
				bl := []genBlob{b}
				l = append(l, genTx{raw: blobTxWithInner(inner, bl), blobs: bl})
			}
		}
		txs = l
		c.count("refused_but_fits_open_share")
	}
	c.count(fmt.Sprintf("max_%d", max))
	c.count(fmt.Sprintf("thr_%d", thr))
	c.count(fmt.Sprintf("ntx_%d", min(len(txs)/3*3, 12)))
	return sqCase{txs: txs, max: max, thr: thr}
}

func argsOf(s sqCase) []string {
	return []string{strconv.Itoa(s.max), strconv.Itoa(s.thr), joinHexList(rawsOf(s.txs))}
}

func sameSquare(a, b square.Square) bool { return a.Equals(b) }

func isSubsequence(sub, full [][]byte) bool {
	i := 0
	for _, f := range full {
		if i < len(sub) && bytes.Equal(sub[i], f) {
			i++
		}
	}
	return i == len(sub)
}

// keptCase builds and returns the kept list (an ordered list accepted by Construct).
func keptCase(s sqCase) (square.Square, [][]byte, error) {
	return square.Build(rawsOf(s.txs), s.max, s.thr)
}

// ---- C01 ----
func genC01(c *Ctx) {
	emptyTxOK = true
	defer func() { emptyTxOK = false }()
	shortInner = true
	defer func() { shortInner = false }()
	c.rule = "mixed tx lists (0-14 txs, normal sizes from the compact hot list, 1-4 blobs per blob tx with sparse hot sizes, versions 0/1, 2-5 namespaces) x max in powers of two (tight so that appends are refused) x thresholds; Build, Construct(kept), each twice; non-trivial = distinct case where something was kept"
	r := c.rng
	// what an earlier Build returned (held by reference, with a private deep copy) must still be what it was
	// after later Builds: outputs of different calls share no memory
	var prevKept, prevKeptCopy, prevSq [][]byte
	var prevWit map[string]any
	var prevMax, prevThr int
	for i := 0; i < 260*c.scale; i++ {
		s := randSquareCase(c, r, false, true)
		if i == 17 {
			s = denseV1Cases(c, r)[0]
		}
		if i >= 30 && i < 36 {
			if bf := brimFullCases(c, r); i-30 < len(bf) {
				s = bf[i-30]
			}
		}
		if i >= 40 && i < 44 {
			if hi := hugeInnerCases(c, r); i-40 < len(hi) {
				s = hi[i-40]
			}
		}
		if i >= 50 && i < 90 && i%9 != 4 {
			if rf := refusedInFirstShareCases(c, r); i-50 < len(rf) {
				s = rf[i-50]
			}
		}
		if i >= 100 && i < 140 && i%9 != 4 {
			if bb := blobBeforeNormalCases(c, r); i-100 < len(bb) {
				s = bb[i-100]
			}
		}
		if i%9 == 4 {
			// only blob transactions (the kept list is then the blob group alone)
			var only []genTx
			for _, t := range s.txs {
				if t.blobs != nil {
					only = append(only, t)
				}
			}
			if len(only) > 0 {
				s.txs = only
			}
		}
		c.add("build", argsOf(s)...)
		sq, kept, err := keptCase(s)
		wit := map[string]any{"case": s.shape()}
		if !c.check(err == nil, "Build", "error", wit) {
			continue
		}
		if prevKept != nil {
			same := len(prevKept) == len(prevKeptCopy)
			for j := 0; same && j < len(prevKept); j++ {
				same = bytes.Equal(prevKept[j], prevKeptCopy[j])
			}
			c.check(same, "Build", "the kept list returned by an earlier Build changed when Build was called again", prevWit)
			if same {
				sqp, err := square.Construct(prevKept, prevMax, prevThr)
				c.check(err == nil && eqShares(prevSq, sqp), "Construct(kept)", "differs from the square built earlier, after another Build ran in between", prevWit)
			}
		}
		prevKept = kept
		prevKeptCopy = make([][]byte, len(kept))
		for j := range kept {
			prevKeptCopy[j] = append([]byte{}, kept[j]...)
		}
		prevSq = copyShares(sq)
		prevWit, prevMax, prevThr = wit, s.max, s.thr
		// kept: normals then blob txs, each group a subsequence of the input in order
		var normals, blobtxs [][]byte
		seenBlob := false
		ordered := true
		for _, k := range kept {
			_, isBlob, _ := tx.UnmarshalBlobTx(k)
			if isBlob {
				seenBlob = true
				blobtxs = append(blobtxs, k)
			} else {
				if seenBlob {
					ordered = false
				}
				normals = append(normals, k)
			}
		}
		var inNormals, inBlobs [][]byte
		for _, t := range s.txs {
			if t.blobs == nil {
				inNormals = append(inNormals, t.raw)
			} else {
				inBlobs = append(inBlobs, t.raw)
			}
		}
		c.check(ordered && isSubsequence(normals, inNormals) && isSubsequence(blobtxs, inBlobs), "Build", "kept list is not ordinary-then-blob subsequences of the input", wit)
		sq2, err := square.Construct(kept, s.max, s.thr)
		c.check(err == nil && sameSquare(sq, sq2), "Construct(kept)", "differs from the built square", wit)
		sq3, kept3, err := keptCase(s)
		c.check(err == nil && sameSquare(sq, sq3) && len(kept3) == len(kept), "Build", "not deterministic", wit)
		c.add("construct", strconv.Itoa(s.max), strconv.Itoa(s.thr), joinHexList(kept))
		if len(kept) < len(s.txs) {
			c.count("refused_some")
		}
		if len(kept) > 0 {
			c.mark(s.shape())
		}
	}
}

// ---- C02 ----
func genC02(c *Ctx) {
	nonCanonicalOK = false
	defer func() { nonCanonicalOK = true }()
	c.rule = "ordered lists accepted by Construct (kept lists of greedy builds and fitting lists), multi-blob PFBs, boundary lengths, versions 0/1; Deconstruct(Construct(txs)) compared with txs; non-trivial = distinct non-empty list"
	r := c.rng
	c.add("condecon", "4", "64", "")
	sq, err := square.Construct(nil, 4, 64)
	txs0, err2 := square.Deconstruct(sq, decodeMockPFB)
	c.check(err == nil && err2 == nil && len(sq) == 1 && bytes.Equal(sq[0].ToBytes(), refPadding(tailNs, 0)) && len(txs0) == 0, "Construct/Deconstruct", "empty list does not map to the 1x1 tail padding square and back", map[string]any{})
	var list []sqCase
	for i := 0; i < 220*c.scale; i++ {
		list = append(list, randSquareCase(c, r, true, r.Bool(50)))
	}
	nModel := len(list)
	// Go side only: squares wider than 128 (indexes >= 16384), very long units on varint-width boundaries
	list = append(list, bigSquareCases(c, r, true)...)
	for _, s := range boundaryUnitCases(c, r) {
		hasBlobTx := false
		for _, t := range s.txs {
			if t.blobs != nil {
				hasBlobTx = true // inner transactions of that family are not in the mock PFB format Deconstruct's decoder needs
			}
		}
		if hasBlobTx {
			continue
		}
		if len(s.txs) > 0 && s.txs[len(s.txs)-1].blobs == nil && len(s.txs[len(s.txs)-1].raw) > 4096 {
			// make the long transaction non-zero and follow it by a small blob transaction
			copy(s.txs[len(s.txs)-1].raw, r.Bytes(32))
			s.txs[len(s.txs)-1].raw[len(s.txs[len(s.txs)-1].raw)-1] = 0x5a
			nss := blobNamespaces(r, 2)
			b0 := randBlob(r, nss, 900)
			bl := []genBlob{b0}
			s.txs = append(s.txs, genTx{raw: blobTxOf(r, bl), blobs: bl})
			s.max = 128
		}
		list = append(list, s)
	}
	// Go side only: a first blob transaction with several one-share blobs in a HIGH namespace, then one large blob
	// in a LOW namespace that is laid out in front of them and pushes their start indexes to 128 and beyond
	// (two-byte varints), with the length of the first inner transaction swept over a whole compact share (478
	// values), so that the wrapped PFBs end at every distance from a share end: any estimate of the first PFB
	// tighter than the specified 3-byte placeholders under-counts somewhere in the sweep
	{
		nss := blobNamespaces(r, 2)
		lo, hi := nss[0], nss[1]
		if bytes.Compare(lo, hi) > 0 {
			lo, hi = hi, lo
		}
		big := genBlob{ns: lo, data: r.Bytes(478 + 482*(130+r.Intn(60)))}
		nSmall := 4 + r.Intn(8)
		var small []genBlob
		for k := 0; k < nSmall; k++ {
			small = append(small, genBlob{ns: hi, data: r.Bytes(1 + r.Intn(400))})
		}
		sizesOf := map[string][]uint32{}
		decoder := func(pfb []byte) ([]uint32, error) {
			if sz, ok := sizesOf[string(pfb)]; ok {
				return sz, nil
			}
			return nil, fmt.Errorf("unknown inner transaction")
		}
		innerB := r.Bytes(50)
		sizesOf[string(innerB)] = []uint32{uint32(len(big.data))}
		txB := blobTxWithInner(innerB, []genBlob{big})
		for l := 1; l <= 478; l++ {
			innerA := r.Bytes(l)
			var sz []uint32
			for _, g := range small {
				sz = append(sz, uint32(len(g.data)))
			}
			sizesOf[string(innerA)] = sz
			txs := [][]byte{blobTxWithInner(innerA, small), txB}
			wit := map[string]any{"first_inner_len": l, "small_blobs": nSmall, "big_blob_shares": (len(big.data) + 3) / 482, "max": 64, "thr": 64}
			c.guard("Construct/Deconstruct", wit, func() {
				sq, err := square.Construct(txs, 64, 64)
				if !c.check(err == nil, "Construct", "error on a list that fits (later low-namespace blob pushes earlier blobs to two-byte indexes)", wit) {
					return
				}
				back, err := square.Deconstruct(sq, decoder)
				c.check(err == nil && len(back) == 2 && bytes.Equal(back[0], txs[0]) && bytes.Equal(back[1], txs[1]), "Deconstruct", "does not return the transactions the square was constructed from", wit)
			})
			delete(sizesOf, string(innerA))
		}
		c.count("pushed_index_sweep")
		c.goOnly += 478
	}
	for ci, s := range list {
		ci, s := ci, s
		c.guard("Construct/Deconstruct", map[string]any{"case": s.shape()}, func() {
			_, kept, err := keptCase(s)
			if err != nil {
				c.check(false, "Build", "error", map[string]any{"case": s.shape()})
				return
			}
			// keep only non-empty ordinary txs (the property quantifies over non-empty ones)
			if ci < nModel {
				c.add("condecon", strconv.Itoa(s.max), strconv.Itoa(s.thr), joinHexList(kept))
			} else {
				c.goOnly++
			}
			wit := map[string]any{"case": s.shape(), "kept": len(kept)}
			sq, err := square.Construct(kept, s.max, s.thr)
			if !c.check(err == nil, "Construct", "error on a kept list", wit) {
				return
			}
			back, err := square.Deconstruct(sq, decodeMockPFB)
			same := err == nil && len(back) == len(kept)
			if same {
				for j := range kept {
					if !bytes.Equal(back[j], kept[j]) {
						same = false
					}
				}
			}
			c.check(same, "Deconstruct", "does not return the transactions the square was constructed from", wit)
			if len(kept) > 0 {
				c.mark(s.shape())
			}
		})
	}
}

// blobPlacement: for a constructed square, the placement of every blob as recorded in the wrapped PFBs.
type placement struct {
	p, j   int
	g      genBlob
	index  int
	shares []share.Share
}

func placements(sq square.Square, kept [][]byte) ([]placement, error) {
	wpfbs, err := sq.WrappedPFBs()
	if err != nil {
		return nil, err
	}
	var out []placement
	p := 0
	for _, k := range kept {
		bt, isBlob, err := tx.UnmarshalBlobTx(k)
		if !isBlob {
			continue
		}
		if err != nil {
			return nil, err
		}
		if p >= len(wpfbs) {
			return nil, fmt.Errorf("missing wrapped pfb %d", p)
		}
		iw, ok := tx.UnmarshalIndexWrapper(wpfbs[p])
		if !ok || len(iw.ShareIndexes) != len(bt.Blobs) {
			return nil, fmt.Errorf("wrapped pfb %d malformed", p)
		}
		for j, b := range bt.Blobs {
			shs, err := b.ToShares()
			if err != nil {
				return nil, err
			}
			out = append(out, placement{p: p, j: j, g: genBlob{ns: b.Namespace().Bytes(), ver: b.ShareVersion(), signer: b.Signer(), data: b.Data()}, index: int(iw.ShareIndexes[j]), shares: shs})
		}
		p++
	}
	return out, nil
}

// ---- C03 ----
func genC03(c *Ctx) {
	emptyTxOK = true
	defer func() { emptyTxOK = false }()
	defer func() {
		// squares exported by ONE live builder in the middle of and at the end of a history of appends,
		// exports and queries are the same well-formed squares Construct gives for the accepted transactions
		for i := 0; i < 30*c.scale; i++ {
			liveBuilderHistory(c, c.rng, randSquareCase(c, c.rng, false, false), "Builder (live)")
		}
	}()
	shortInner = true
	defer func() { shortInner = false }()
	c.rule = "squares from Build and Construct over mixed lists as in C01; direct scan: side, share count and size, namespace order, region structure, canonical padding everywhere outside the two compact sequences and the blobs; non-trivial = distinct case with at least one blob or two transactions"
	r := c.rng
	var list []sqCase
	for i := 0; i < 260*c.scale; i++ {
		list = append(list, randSquareCase(c, r, false, true))
	}
	list = append(list, refusedLowNamespaceCases(c, r)...)
	nModel := len(list)
	// Go-side only (too large for the model runner): blobs whose share count sits on the constants of the
	// code - the worst-case share index 128*128 = 16384 - alone, behind ordinary transactions, and next to
	// a small accepted blob transaction
	list = append(list, oversizedBlobCases(c, r)...)
	list = append(list, boundaryUnitCases(c, r)...)
	list = append(list, bigSquareCases(c, r, false)...)
	var lastSq square.Square
	for ci, s := range list {
		if ci < nModel {
			c.add("build", argsOf(s)...)
		} else {
			c.goOnly++
		}
		// the caller owns what it was handed: overwrite every byte of the previous square before building the
		// next one (squares of different calls must not share memory, e.g. one cached padding share)
		for _, sh := range lastSq {
			b := sh.ToBytes()
			for k := range b {
				b[k] = 0xa5
			}
		}
		sq, kept, err := keptCase(s)
		lastSq = sq
		wit := map[string]any{"case": s.shape()}
		if !c.check(err == nil, "Build", "error", wit) {
			continue
		}
		side := sq.Size()
		c.check(isPow2(side) && side <= s.max && len(sq) == side*side, "square size", "side is not a power of two <= max with side*side shares", wit)
		okLen, okOrder := true, true
		for k := range sq {
			if len(sq[k].ToBytes()) != 512 {
				okLen = false
			}
			if k > 0 && okLen && bytes.Compare(sq[k-1].ToBytes()[:29], sq[k].ToBytes()[:29]) > 0 {
				okOrder = false
			}
		}
		c.check(okLen, "square shares", "a share is not 512 bytes", wit)
		c.check(okOrder, "namespace order", "shares are not in non-decreasing namespace order", wit)
		if !okLen {
			continue
		}
		pl, err := placements(sq, kept)
		if !c.check(err == nil, "WrappedPFBs", "cannot recover placements", wit) {
			continue
		}
		// classify every index
		kind := make([]byte, len(sq)) // 0 unknown, 't', 'p', 'b'
		k := 0
		for k < len(sq) && bytes.Equal(sq[k].ToBytes()[:29], txNs) {
			kind[k] = 't'
			k++
		}
		for k < len(sq) && bytes.Equal(sq[k].ToBytes()[:29], pfbNs) {
			kind[k] = 'p'
			k++
		}
		compactEnd := k
		sort.SliceStable(pl, func(a, b int) bool { return pl[a].index < pl[b].index })
		okBlobs := true
		for _, p := range pl {
			for d := range p.shares {
				if p.index+d >= len(sq) || kind[p.index+d] != 0 {
					okBlobs = false
				} else {
					kind[p.index+d] = 'b'
				}
			}
		}
		c.check(okBlobs, "blob region", "blob ranges overlap or leave the square", wit)
		// everything else must be canonical padding of the right namespace
		okPad := true
		prev := -1 // index into pl of the last blob before position
		pi := 0
		for pos := compactEnd; pos < len(sq); pos++ {
			for pi < len(pl) && pl[pi].index <= pos {
				prev = pi
				pi++
			}
			if kind[pos] != 0 {
				continue
			}
			var want []byte
			switch {
			case len(pl) > 0 && pos < pl[0].index:
				want = refPadding(prpNs, 0)
			case prev >= 0 && prev < len(pl)-1:
				want = refPadding(pl[prev].g.ns, pl[prev].g.ver)
			default:
				want = refPadding(tailNs, 0)
			}
			if !bytes.Equal(sq[pos].ToBytes(), want) {
				okPad = false
			}
		}
		c.check(okPad, "padding", "a share outside the sequences and blobs is not the canonical padding share of its region", wit)
		if len(pl) > 0 || len(kept) > 1 {
			c.mark(s.shape())
		}
	}
}

// ---- C04 ----
func genC04(c *Ctx) {
	shortInner = true
	defer func() { shortInner = false }()
	defer func() {
		for i := 0; i < 25*c.scale; i++ {
			liveBuilderHistory(c, c.rng, randSquareCase(c, c.rng, false, false), "Builder (live)")
			if i%12 == 5 {
				liveBuilderHistory(c, c.rng, manyBlobLiveCase(c.rng), "Builder (live, more than 64 blobs)")
			}
			if i%12 == 7 {
				sharedBlobObjectHistory(c, c.rng)
			}
		}
	}()
	c.rule = "constructed squares over ordered lists with several blobs (equal and different namespaces, versions 0/1, boundary lengths); every (blob tx, blob): recorded index vs verbatim shares, alignment, disjointness and order, BlobShareRange incl. out-of-range indexes; non-trivial = distinct case with >= 2 blobs"
	r := c.rng
	var list []sqCase
	for i := 0; i < 160*c.scale; i++ {
		list = append(list, randSquareCase(c, r, true, r.Bool(40)))
	}
	list = append(list, manyTxManyBlobCases(c, r)...)
	list = append(list, brimFullCases(c, r)...)
	list = append(list, manyTinyTxCases(c, r)...)
	nModel := len(list)
	list = append(list, bigSquareCases(c, r, true)...) // Go side only
	for ci, s := range list {
		c.noModel = ci >= nModel
		if c.noModel {
			c.goOnly++
		}
		_, kept, err := keptCase(s)
		if err != nil {
			c.check(false, "Build", "error", map[string]any{"case": s.shape()})
			continue
		}
		wit := map[string]any{"case": s.shape()}
		sq, err := square.Construct(kept, s.max, s.thr)
		if !c.check(err == nil, "Construct", "error", wit) {
			continue
		}
		pl, err := placements(sq, kept)
		if !c.check(err == nil, "WrappedPFBs", "cannot recover placements", wit) {
			continue
		}
		nNormal := 0
		for _, k := range kept {
			if _, isBlob, _ := tx.UnmarshalBlobTx(k); !isBlob {
				nNormal++
			}
		}
		keptHex := joinHexList(kept)
		for _, p := range pl {
			n := len(p.shares)
			w := map[string]any{"case": s.shape(), "pfb": p.p, "blob": p.j, "version": int(p.g.ver), "data_len": len(p.g.data)}
			verb := p.index+n <= len(sq)
			if verb {
				for d := range p.shares {
					if !bytes.Equal(sq[p.index+d].ToBytes(), p.shares[d].ToBytes()) {
						verb = false
					}
				}
			}
			c.check(verb, "recorded share index", "the blob's own share encoding does not appear verbatim at the recorded index", w)
			c.check(p.index%inclusion.SubTreeWidth(n, s.thr) == 0, "alignment", "recorded index is not a multiple of the subtree width", w)
			rg, err := square.BlobShareRange(kept, nNormal+p.p, p.j, s.max, s.thr)
			c.check(err == nil && rg.Start == p.index && rg.End == p.index+n, "BlobShareRange", "differs from the recorded range", w)
			c.add("blobrange", strconv.Itoa(s.max), strconv.Itoa(s.thr), strconv.Itoa(nNormal+p.p), strconv.Itoa(p.j), keptHex)
		}
		// order: by (namespace, pfb, blob index), disjoint
		sorted := append([]placement{}, pl...)
		sort.SliceStable(sorted, func(a, b int) bool { return sorted[a].index < sorted[b].index })
		okOrder := true
		for k := 1; k < len(sorted); k++ {
			a, b := sorted[k-1], sorted[k]
			if a.index+len(a.shares) > b.index {
				okOrder = false
			}
			cmp := bytes.Compare(a.g.ns, b.g.ns)
			if cmp > 0 || (cmp == 0 && (a.p > b.p || (a.p == b.p && a.j >= b.j))) {
				okOrder = false
			}
		}
		c.check(okOrder, "blob order", "ranges overlap or are not ordered by namespace, then transaction, then position", wit)
		// out-of-range queries
		for _, q := range [][2]int{{-1, 0}, {0, 0}, {len(kept), 0}, {nNormal, -1}, {nNormal, 99}, {len(kept) - 1, 4}} {
			c.add("blobrange", strconv.Itoa(s.max), strconv.Itoa(s.thr), strconv.Itoa(q[0]), strconv.Itoa(q[1]), keptHex)
			_, err := square.BlobShareRange(kept, q[0], q[1], s.max, s.thr)
			valid := false
			for _, p := range pl {
				if nNormal+p.p == q[0] && p.j == q[1] {
					valid = true
				}
			}
			c.check((err == nil) == valid, "BlobShareRange", "out-of-range index did not yield an error (or a valid one did)", map[string]any{"case": s.shape(), "tx": q[0], "blob": q[1]})
		}
		if len(pl) >= 2 {
			c.mark(s.shape())
		}
	}
	c.noModel = false
	helperCases(c)
}

// ---- C06 ----
func occupied(sq square.Square) int {
	n := len(sq)
	for n > 0 && bytes.Equal(sq[n-1].ToBytes(), refPadding(tailNs, 0)) {
		n--
	}
	return n
}

func genC06(c *Ctx) {
	emptyTxOK = true
	defer func() { emptyTxOK = false }()
	shortInner = true
	defer func() { shortInner = false }()
	c.rule = "append sequences on a builder (accepted and refused ordinary and blob txs of hot sizes, tight maxima <= 64) with the observable state queried after every append and a final export; oracle: no Build error, estimate >= occupied shares, minimal side, refusal exactly on overflow (independent estimate), refused append leaves state unchanged; non-trivial = distinct sequence with a refused append or a blob"
	r := c.rng
	var list []sqCase
	for i := 0; i < 220*c.scale; i++ {
		list = append(list, randSquareCase(c, r, false, true))
	}
	list = append(list, fullSquareExactFitCases(c, r)...)
	list = append(list, refusedInFirstShareCases(c, r)...)
	list = append(list, sameNsPairCases(c, r)...)
	list = append(list, refusedLowNamespaceCases(c, r)...)
	list = append(list, hugeInnerCases(c, r)...)
	list = append(list, rowPaddingSweep(c, r)...)
	nModel := len(list)
	// Go side only: units on varint-width boundaries aligned to share boundaries, many-blob PFBs, oversized blobs
	list = append(list, boundaryUnitCases(c, r)...)
	list = append(list, oversizedBlobCases(c, r)...)
	list = append(list, bigSquareCases(c, r, false)...)
	list = append(list, nearExactFillCases(c, r)...)
	exportThenShiftSweep(c, r, "Builder (export, append, export)")
	for ci, s := range list {
		if ci < nModel {
			ops := make([]string, 0, 2*len(s.txs)+2)
			for ti, t := range s.txs {
				if t.blobs == nil {
					ops = append(ops, "t"+hx(t.raw), "q")
				} else {
					ops = append(ops, "b"+hx(t.raw), "q")
				}
				if (ci+ti)%9 == 4 {
					// a blob transaction without blobs, passed directly to the builder
					ops = append(ops, "z"+hx(r.Bytes(pick(r, []int{1, 200, 440, 470, 1200}))), "q")
				}
			}
			ops = append(ops, "x", "q")
			c.add("builderops", strconv.Itoa(s.max), strconv.Itoa(s.thr), strings.Join(ops, ","))
			c.add("build", argsOf(s)...)
		} else {
			c.goOnly++
		}
		// oracle
		wit := map[string]any{"case": s.shape()}
		b, err := square.NewBuilder(s.max, s.thr)
		if err != nil {
			continue
		}
		var normals [][]byte
		var pfbs []refTx
		refused := false
		hasBlob := false
		for ti, t := range s.txs {
			if (ci+ti)%4 == 1 {
				// an export or a query in the middle of the history (they rewrite the share indexes inside the
				// wrapped PFBs the builder holds; the counters must keep counting the worst case)
				if (ci+ti)%8 == 1 {
					_, _ = b.Export()
				} else {
					_, _ = b.FindTxShareRange(0)
				}
				c.count("mid_history_export_or_query")
			}
			before := builderObs(b)
			var ok bool
			var would int
			if t.blobs == nil {
				would = refEstimate(append(append([][]byte{}, normals...), t.raw), pfbs, s.thr)
				ok = b.AppendTx(t.raw)
				if ok {
					normals = append(normals, t.raw)
				}
			} else {
				hasBlob = true
				rt := classify(t.raw)
				would = refEstimate(normals, append(append([]refTx{}, pfbs...), rt), s.thr)
				bt, _, _ := tx.UnmarshalBlobTx(t.raw)
				ok = b.AppendBlobTx(bt)
				if ok {
					pfbs = append(pfbs, rt)
				}
			}
			c.check(ok == (would <= s.max*s.max), "Append", "not refused exactly when the estimate would exceed max squared", wit)
			if ok {
				c.check(b.CurrentSize() == would, "CurrentSize", "differs from the worst-case estimate of the rules", wit)
			} else {
				refused = true
				after := builderObs(b)
				c.check(before == after, "refused append", "changed the builder's observable state", wit)
			}
			if r.Intn(8) == 0 {
				// a blob transaction without blobs appended directly: a PFB with no share indexes
				zt := refTx{isBlob: true, inner: r.Bytes(pick(r, []int{1, 200, 440, 470, 1200}))}
				before := builderObs(b)
				would := refEstimate(normals, append(append([]refTx{}, pfbs...), zt), s.thr)
				ok := b.AppendBlobTx(&tx.BlobTx{Tx: zt.inner})
				c.check(ok == (would <= s.max*s.max), "Append (no blobs)", "not refused exactly when the estimate would exceed max squared", wit)
				if ok {
					pfbs = append(pfbs, zt)
					c.check(b.CurrentSize() == would, "CurrentSize", "differs from the worst-case estimate of the rules", wit)
				} else {
					after := builderObs(b)
					c.check(before == after, "refused append", "changed the builder's observable state", wit)
				}
				c.count("zero_blob_append")
			}
		}
		sq, err := b.Export()
		if c.check(err == nil, "Export", "error", wit) {
			est := b.CurrentSize()
			c.check(est >= occupied(sq) || (est == 0 && len(sq) == 1), "estimate", "smaller than the number of shares actually occupied", wit)
			side := sq.Size()
			c.check(side <= s.max && side*side >= est && (side == 1 || (side/2)*(side/2) < est), "side", "not the smallest power of two covering the estimate", wit)
		}
		_, _, err = keptCase(s)
		c.check(err == nil, "Build", "error", wit)
		if refused || hasBlob {
			c.mark(s.shape())
		}
		if refused {
			c.count("with_refusal")
		}
	}
}

// ---- C07 ----
func genC07(c *Ctx) {
	emptyTxOK = true
	defer func() { emptyTxOK = false }()
	shortInner = true
	defer func() { shortInner = false }()
	c.rule = "Construct and Build outputs compared byte for byte with an independent reference implementation of the layout rules (harness) and with the Coq model; lists as in C01 incl. equal namespaces (stability), versions 0/1; non-trivial = distinct case with a blob"
	r := c.rng
	var list []sqCase
	for i := 0; i < 240*c.scale; i++ {
		list = append(list, randSquareCase(c, r, false, true))
	}
	nModel := len(list)
	// Go side only (compared with the harness's reference layout, not with the model)
	list = append(list, boundaryUnitCases(c, r)...)
	list = append(list, bigSquareCases(c, r, false)...)
	list = append(list, emptyInnerSweep(c, r)...)
	list = append(list, hugeMaxCases(c, r)...)
	list = append(list, hugeInnerCases(c, r)...)
	list = append(list, rowPaddingSweep(c, r)...)
	list = append(list, refusedLowNamespaceCases(c, r)...)
	list = append(list, sameNsPairCases(c, r)...)
	for _, l := range invalidBlobTxCases(c, r) {
		lhex := joinHexList(l)
		c.add("build", "8", "64", lhex)
		c.add("construct", "8", "64", lhex)
		wit := map[string]any{"txs": len(l), "last_tx": hx(l[len(l)-1])}
		c.guard("Build (invalid blob)", wit, func() {
			_, _, err := square.Build(l, 8, 64)
			c.check(err != nil, "Build", "a list with a blob transaction that carries an invalid blob is given a square", wit)
			_, err = square.Construct(l, 8, 64)
			c.check(err != nil, "Construct", "a list with a blob transaction that carries an invalid blob is given a square", wit)
		})
		c.count("list_with_invalid_blob")
	}
	for ci, s := range list {
		if ci < nModel {
			c.add("build", argsOf(s)...)
			c.add("specbuild", argsOf(s)...)
		} else {
			c.goOnly++
		}
		wit := map[string]any{"case": s.shape()}
		sq, kept, err := keptCase(s)
		if !c.check(err == nil, "Build", "error", wit) {
			continue
		}
		{
			// the list the caller passed is the caller's: after Build it must still hold the same transactions in
			// the same positions (a caller that builds again, or asks for ranges, uses it as it was)
			given := rawsOf(s.txs)
			orig := append([][]byte{}, given...)
			sqA, _, errA := square.Build(given, s.max, s.thr)
			unchanged := len(given) == len(orig)
			for j := 0; unchanged && j < len(orig); j++ {
				unchanged = bytes.Equal(given[j], orig[j])
			}
			c.check(unchanged, "Build", "rewrote the list of transactions it was given", wit)
			sqB, _, errB := square.Build(given, s.max, s.thr)
			c.check(errA == nil && errB == nil && sameSquare(sqA, sqB) && sameSquare(sqA, sq), "Build", "a second Build of the same list gives a different square", wit)
		}
		normals, pfbs := refKeep(rawsOf(s.txs), s.max, s.thr)
		var refKept [][]byte
		refKept = append(refKept, normals...)
		for _, p := range pfbs {
			refKept = append(refKept, p.raw)
		}
		sameKept := len(refKept) == len(kept)
		if sameKept {
			for j := range kept {
				if !bytes.Equal(kept[j], refKept[j]) {
					sameKept = false
				}
			}
		}
		c.check(sameKept, "Build", "kept transactions differ from greedy keep/refuse by the worst-case estimate", wit)
		ref := refLayout(normals, pfbs, s.thr)
		c.check(eqShares(ref, sq), "Build", "square differs from the specified layout", wit)
		sq2, err := square.Construct(refKept, s.max, s.thr)
		c.check(err == nil && eqShares(ref, sq2), "Construct", "square differs from the specified layout", wit)
		if ci < nModel {
			c.add("construct", strconv.Itoa(s.max), strconv.Itoa(s.thr), joinHexList(refKept))
			c.add("specconstruct", strconv.Itoa(s.max), strconv.Itoa(s.thr), joinHexList(refKept))
		}
		if len(pfbs) > 0 {
			c.mark(s.shape())
		}
	}
}

// rawBlobTx: a BlobTx message encoded by hand (canonical field order), so that blobs the library's own
// MarshalBlobTx refuses to produce can be put on the wire
func rawBlobTx(inner []byte, blobs []genBlob, nsVersion []uint64) []byte {
	var out []byte
	if len(inner) > 0 {
		out = protowire.AppendBytes(protowire.AppendTag(out, 1, protowire.BytesType), inner)
	}
	for i, g := range blobs {
		var m []byte
		m = protowire.AppendBytes(protowire.AppendTag(m, 1, protowire.BytesType), g.ns[1:])
		if len(g.data) > 0 {
			m = protowire.AppendBytes(protowire.AppendTag(m, 2, protowire.BytesType), g.data)
		}
		if g.ver != 0 {
			m = protowire.AppendVarint(protowire.AppendTag(m, 3, protowire.VarintType), uint64(g.ver))
		}
		if nsVersion != nil && nsVersion[i] != 0 {
			m = protowire.AppendVarint(protowire.AppendTag(m, 4, protowire.VarintType), nsVersion[i])
		}
		if len(g.signer) > 0 {
			m = protowire.AppendBytes(protowire.AppendTag(m, 5, protowire.BytesType), g.signer)
		}
		out = protowire.AppendBytes(protowire.AppendTag(out, 2, protowire.BytesType), m)
	}
	return protowire.AppendString(protowire.AppendTag(out, 3, protowire.BytesType), "BLOB")
}

// invalidBlobTxCases: lists in which one transaction IS a blob transaction (type id BLOB, decodable message) but
// one of its blobs is not a valid blob: no data (share version 0 without signer, share version 1 WITH a 20-byte
// signer, with a 19-byte one), a namespace version that is a non-zero multiple of 256.
// The layout rules give such a list no square: Build and Construct must return an error.
func invalidBlobTxCases(c *Ctx, r *Rng) [][][]byte {
	nss := blobNamespaces(r, 2)
	good := func() genBlob {
		b := randBlob(r, nss, 100)
		b.ver, b.signer = 0, nil
		b.data = r.Bytes(1 + r.Intn(600))
		return b
	}
	var bad [][]byte
	for v := 0; v < 4; v++ {
		b := good()
		var nsv []uint64
		switch v {
		case 0:
			b.data = nil
		case 1:
			b.data, b.ver, b.signer = nil, 1, r.Bytes(20)
		case 2:
			b.data, b.ver, b.signer = nil, 1, r.Bytes(19)
		case 3:
			// (a namespace version of 2^32 is NOT in this list: the field is a uint32, the wire value is truncated
			// to 0 by the protobuf decoder, and model and code agree that the blob is valid)
			nsv = []uint64{0, uint64(256 * (1 + r.Intn(1000)))}
		}
		blobs := []genBlob{good(), b}
		if v < 3 && r.Bool(50) {
			blobs = []genBlob{b}
			nsv = nil
		}
		bad = append(bad, rawBlobTx(r.Bytes(20+r.Intn(100)), blobs, nsv))
	}
	var out [][][]byte
	for _, bt := range bad {
		ok := good()
		okTx := blobTxWithInner(r.Bytes(30), []genBlob{ok})
		out = append(out, [][]byte{bt}, [][]byte{r.Bytes(50), bt}, [][]byte{r.Bytes(10), okTx, bt})
	}
	return out
}

// emptyInnerSweep: two blob transactions, the first with an inner transaction of every length 380..520 (so that
// the worst-case PFB sequence ends on every offset around the first compact share boundary), the second with an
// EMPTY inner transaction (its wrapper has no tx field at all: a size computed field by field instead of from
// the encoding is two bytes off); and the same with the empty one first.
func emptyInnerSweep(c *Ctx, r *Rng) []sqCase {
	var out []sqCase
	nss := blobNamespaces(r, 2)
	for L := 380; L <= 520; L++ {
		b1 := randBlob(r, nss, 100)
		b1.data = r.Bytes(1 + r.Intn(400))
		b2 := randBlob(r, nss, 100)
		b2.data = r.Bytes(1 + r.Intn(400))
		mk := func(inner []byte, b genBlob) genTx {
			raw, err := tx.MarshalBlobTx(inner, b.blob())
			if err != nil {
				panic("harness: MarshalBlobTx: " + err.Error())
			}
			return genTx{raw: raw, blobs: []genBlob{b}}
		}
		l := []genTx{mk(r.Bytes(L), b1), mk(nil, b2)}
		if L%2 == 1 {
			l[0], l[1] = l[1], l[0]
		}
		out = append(out, sqCase{txs: l, max: 8, thr: 64})
		c.count("empty_inner_tx_sweep")
	}
	return out
}

// alignedTxLen: a transaction length near `around` such that `prefix` stream bytes followed by the
// length-prefixed transaction end exactly `delta` bytes past a compact share boundary (474 + 478 k).
func alignedTxLen(prefix, around, delta int) int {
	l := around
	for it := 0; it < 8; it++ {
		total := prefix + l + len(uvarint(uint64(l)))
		over := (total - 474 - delta) % 478
		if total < 474+delta {
			over = total - 474 - delta // negative: grow
		}
		if over == 0 {
			return l
		}
		l -= over
		if l < 1 {
			l += 478
		}
	}
	return l
}

// boundaryUnitCases (Go side only: units up to 2 MiB): ordinary transactions whose length sits on a
// varint-width boundary (2^14, 2^21) or a power of two near them (2^20), sized so that the stream ends
// exactly on / one byte past a compact share boundary - the only alignments at which a one-byte
// disagreement between a counter and a writer changes a share count; and blob transactions with
// 42..44 / 63..65 blobs (the packed share-index field crosses its one-byte length prefix at 43 worst-case
// and 64 one-byte-real indexes) whose worst-case wrapped PFB ends on / one byte past the first share.
func boundaryUnitCases(c *Ctx, r *Rng) []sqCase {
	var out []sqCase
	nss := blobNamespaces(r, 3)
	for _, around := range []int{1 << 14, 1<<14 + 200, 1 << 20, 1<<20 + 700, 1<<21 - 700, 1 << 21, 1<<21 + 700, 1<<21 + 9000} {
		for delta := 0; delta <= 1; delta++ {
			prefix := 0
			var l []genTx
			if r.Bool(50) {
				small := r.Bytes(1 + r.Intn(300))
				prefix = len(small) + len(uvarint(uint64(len(small))))
				l = append(l, genTx{raw: small})
			}
			n := alignedTxLen(prefix, around, delta)
			l = append(l, genTx{raw: make([]byte, n)})
			max := 64
			if n > 1900000 {
				max = 128
			}
			out = append(out, sqCase{txs: l, max: max, thr: 64})
			c.count("boundary_unit_tx")
		}
	}
	for _, nb := range []int{42, 43, 44, 63, 64, 65} {
		for delta := 0; delta <= 1; delta++ {
			blobs := make([]genBlob, nb)
			for j := range blobs {
				blobs[j] = randBlob(r, nss, 100)
				blobs[j].data = r.Bytes(1 + r.Intn(300))
			}
			worst := make([]uint32, nb)
			for j := range worst {
				worst[j] = 16384
			}
			// inner length such that the delimited worst-case wrapper is 474 + delta bytes
			inner := 200
			for it := 0; it < 8; it++ {
				w := len(refDelimited(refIndexWrapper(make([]byte, inner), worst)))
				if w == 474+delta {
					break
				}
				inner -= w - (474 + delta)
			}
			if inner < 1 {
				continue
			}
			l := []genTx{{raw: blobTxWithInner(r.Bytes(inner), blobs), blobs: blobs}}
			if r.Bool(50) {
				sb := randBlob(r, nss, 300)
				sbl := []genBlob{sb}
				l = append(l, genTx{raw: blobTxWithInner(r.Bytes(100), sbl), blobs: sbl})
			}
			out = append(out, sqCase{txs: l, max: 16, thr: pick(r, []int{1, 64})})
			c.count("boundary_unit_pfb")
		}
	}
	return out
}

// bigSquareCases (Go side only, max 256): squares wider than 128, where share indexes reach 16384 = 128*128 -
// the placeholder value of the estimate, a 3-byte varint.  (1) a blob whose aligned start is exactly 16384
// (behind a 16256-share blob of subtree width 128); (2) about 7.8 MB of ordinary transactions so that every
// blob index needs 3 bytes, with a wrapped PFB that fills its compact shares exactly / minus one / plus one
// byte (worst-case = real size: no reserved padding behind the PFBs).
func bigSquareCases(c *Ctx, r *Rng, ordered bool) []sqCase {
	var out []sqCase
	nss := blobNamespaces(r, 3)
	mock := func(blobs []genBlob) []byte {
		sizes := make([]uint32, len(blobs))
		for j := range blobs {
			sizes[j] = uint32(len(blobs[j].data))
		}
		return mockPFB(r.Bytes(mockPFBExtraBytes), sizes)
	}
	{
		a := genBlob{ns: nss[0], data: make([]byte, 478+482*(16256-1))}
		copy(a.data, r.Bytes(64))
		b := genBlob{ns: nss[0], data: r.Bytes(1000)}
		bl := []genBlob{a, b}
		out = append(out, sqCase{max: 256, thr: 64, txs: []genTx{{raw: blobTxWithInner(mock(bl), bl), blobs: bl}}})
		c.count("big_square_index_16384")
	}
	// numbers of blobs for which the delimited wrapped PFB (mock inner tx of 329 + 4n bytes, n three-byte indexes)
	// ends exactly on a compact share boundary
	var exact []int
	for n := 1; n <= 260 && len(exact) < 2; n++ {
		idx := make([]uint32, n)
		for j := range idx {
			idx[j] = 16384
		}
		w := len(refDelimited(refIndexWrapper(make([]byte, mockPFBExtraBytes+4*n), idx)))
		if w >= 474 && (w-474)%478 == 0 {
			exact = append(exact, n)
		}
	}
	for _, n := range exact {
		for _, d := range []int{0, 1} {
			big := make([]byte, 16384*478+r.Intn(400))
			copy(big, r.Bytes(64))
			big[len(big)-1] = 0x5a
			bl := make([]genBlob, n+d)
			for j := range bl {
				bl[j] = genBlob{ns: nss[1+j%2], data: r.Bytes(2 + r.Intn(300))}
				bl[j].data[0] = byte(1 + r.Intn(100)) // reads as a plausible unit length if mistaken for compact data
			}
			out = append(out, sqCase{max: 256, thr: 64, txs: []genTx{{raw: big}, {raw: blobTxWithInner(mock(bl), bl), blobs: bl}}})
			c.count("big_square_3_byte_indexes")
		}
	}
	return out
}

// oversizedBlobCases: transaction lists containing one blob of 16383 / 16384 / 16385 shares (the
// worst-case share index constant of builder.go), which a 128x128 square can never hold next to
// its own PFB: refused on the estimate, possibly before or after accepted transactions.
func oversizedBlobCases(c *Ctx, r *Rng) []sqCase {
	var out []sqCase
	nss := blobNamespaces(r, 3)
	for _, shares := range []int{16383, 16384, 16385} {
		for variant := 0; variant < 3; variant++ {
			b := randBlob(r, nss, 100)
			b.ver = 0
			b.signer = nil
			b.data = make([]byte, 478+482*(shares-1)-r.Intn(3))
			big := []genBlob{b}
			var l []genTx
			switch variant {
			case 1: // exactly three shares of ordinary transactions first
				l = append(l, genTx{raw: r.Bytes(1000)})
			case 2: // a small accepted blob transaction first
				sb := randBlob(r, nss, 300)
				sbl := []genBlob{sb}
				l = append(l, genTx{raw: blobTxWithInner(r.Bytes(100), sbl), blobs: sbl})
			}
			l = append(l, genTx{raw: blobTxWithInner(r.Bytes(120), big), blobs: big})
			if variant == 1 {
				l = append(l, genTx{raw: r.Bytes(50)})
			}
			out = append(out, sqCase{txs: l, max: 128, thr: 64})
			c.count("oversized_blob")
		}
	}
	return out
}

// manyTxManyBlobCases: 12-14 blob transactions of which one early one carries 11-13 blobs, all with different
// share counts: every (transaction, blob) pair has two-digit components, so a lookup keyed by anything less
// than the PAIR (a concatenation, a sum, a product) confuses two of them.
func manyTxManyBlobCases(c *Ctx, r *Rng) []sqCase {
	var out []sqCase
	for v := 0; v < 2; v++ {
		nss := blobNamespaces(r, 3)
		// (fat, 10) and (10*fat+1, 0) both exist: "110" / "210" read either way
		fat := 1 + v
		n := 10*fat + 2 + r.Intn(2)
		var l []genTx
		cnt := 0
		for i := 0; i < n; i++ {
			k := 1 + r.Intn(2)
			if i == fat {
				k = 11 + r.Intn(3)
			}
			bl := make([]genBlob, k)
			sizes := make([]uint32, k)
			for j := range bl {
				cnt++
				b := randBlob(r, nss, 100)
				b.data = r.Bytes(1 + 482*(cnt%7) + r.Intn(300))
				bl[j] = b
				sizes[j] = uint32(len(b.data))
			}
			l = append(l, genTx{raw: blobTxWithInner(mockPFB(r.Bytes(mockPFBExtraBytes), sizes), bl), blobs: bl})
		}
		out = append(out, sqCase{txs: l, max: 32, thr: 64})
		c.count("many_txs_one_with_many_blobs")
	}
	return out
}

// exportThenShiftSweep (live builder, Go side only): six small blobs in high namespaces, an EXPORT (their share
// indexes are below 128 and the wrapped PFBs get their real, short sizes), then one blob of 130 shares in a low
// namespace - it sorts in front and pushes the six indexes to 128 and beyond, so each wrapped PFB grows by a
// byte - with the new transaction's inner length swept over 1..480 so that the PFB byte total passes over a
// compact share boundary.  Whatever an export remembered about PFB sizes must not survive the append.
func exportThenShiftSweep(c *Ctx, r *Rng, site string) {
	hi := make([][]byte, 6)
	for i := range hi {
		ns := make([]byte, 29)
		ns[19] = 0xf0
		ns[28] = byte(10 + i)
		hi[i] = ns
	}
	lo := make([]byte, 29)
	lo[28] = 0x21
	small := make([]genTx, 6)
	for i := range small {
		b := genBlob{ns: hi[i], data: r.Bytes(1 + r.Intn(400))}
		bl := []genBlob{b}
		small[i] = genTx{raw: blobTxWithInner(mockPFB(r.Bytes(mockPFBExtraBytes), []uint32{uint32(len(b.data))}), bl), blobs: bl}
	}
	bigData := r.Bytes(478 + 482*129)
	for L := 1; L <= 480; L++ {
		b, err := square.NewBuilder(32, 64)
		if err != nil {
			return
		}
		var kept [][]byte
		okAll := true
		for _, t := range small {
			bt, _, _ := tx.UnmarshalBlobTx(t.raw)
			if !b.AppendBlobTx(bt) {
				okAll = false
			}
			kept = append(kept, t.raw)
		}
		if _, err := b.Export(); err != nil || !okAll {
			continue
		}
		bigBlob := genBlob{ns: lo, data: bigData}
		raw := blobTxWithInner(r.Bytes(L), []genBlob{bigBlob})
		bt, _, _ := tx.UnmarshalBlobTx(raw)
		wit := map[string]any{"history": "6 small blobs in high namespaces, export, 130-share blob in a low namespace", "inner_len": L}
		if !b.AppendBlobTx(bt) {
			continue
		}
		kept = append(kept, raw)
		sq, err := b.Export()
		if !c.check(err == nil, site, "Export fails after an append that follows an export", wit) {
			continue
		}
		c.check(b.CurrentSize() >= occupied(sq), site, "estimate smaller than the number of shares actually occupied", wit)
		want, err := square.Construct(kept, 32, 64)
		c.check(err == nil && sameSquare(sq, want), site, "the live builder's export differs from Construct over the accepted transactions", wit)
	}
	c.count("export_then_index_shift_sweep")
	c.goOnly++
}

// denseV1Cases: a 16x16 square filled to the brim with ONE-SHARE version 1 blobs (438..458 data bytes + the
// 20-byte signer) carried by a few transactions of 39 blobs each: the raw transaction bytes (blob envelopes
// included) exceed the square's 256*512 bytes although everything fits - any "obviously safe" size pre-check
// on raw lengths is wrong here.
func denseV1Cases(c *Ctx, r *Rng) []sqCase {
	nss := blobNamespaces(r, 3)
	mk := func(n int) genTx {
		bl := make([]genBlob, n)
		sizes := make([]uint32, n)
		for j := range bl {
			bl[j] = genBlob{ns: pick(r, nss), ver: 1, signer: randSigner(r), data: r.Bytes(456 + r.Intn(3))}
			sizes[j] = uint32(len(bl[j].data))
		}
		_ = sizes
		return genTx{raw: blobTxWithInner(r.Bytes(8+r.Intn(8)), bl), blobs: bl} // short inner tx: two PFB shares in all
	}
	var l []genTx
	for i := 0; i < 6; i++ {
		l = append(l, mk(39))
	}
	l = append(l, mk(20), mk(3), mk(1))
	c.count("dense_one_share_v1_blobs")
	return []sqCase{{txs: l, max: 16, thr: 64}}
}

// brimFullCases: a square of side 2, 4 or 8 filled COMPLETELY - one blob of max*max-1 full shares behind a
// wrapped PFB that itself fills its compact share to the last byte (the largest inner transaction that keeps
// the PFB in one share): no tail padding, no slack anywhere, and more raw transaction bytes than
// 482 * max*max.  Any size pre-check on raw lengths, and any off-by-one in the capacity test, shows here.
func brimFullCases(c *Ctx, r *Rng) []sqCase {
	var out []sqCase
	nss := blobNamespaces(r, 2)
	for _, max := range []int{2, 4, 8} {
		b := randBlob(r, nss, 100)
		b.ver, b.signer = 0, nil
		b.data = r.Bytes(478 + 482*(max*max-2))
		bl := []genBlob{b}
		best := -1
		for L := 300; L <= 470; L++ {
			raw := blobTxWithInner(make([]byte, L), bl)
			if refEstimate(nil, []refTx{classify(raw)}, 64) == max*max {
				best = L
			}
		}
		if best < 0 {
			continue
		}
		for _, d := range []int{0, 1} { // exactly full, and one byte too many in the PFB (refused by Build)
			raw := blobTxWithInner(r.Bytes(best+d), bl)
			out = append(out, sqCase{txs: []genTx{{raw: raw, blobs: bl}, {raw: r.Bytes(1 + r.Intn(50))}}, max: max, thr: 64})
			c.count("brim_full_square")
		}
	}
	return out
}

// manyTinyTxCases: MORE transactions than the largest square has shares - max*max .. max*max+2 ordinary
// transactions of 1-4 bytes (they all share one compact share) followed by blob transactions, so that a blob
// transaction's index in the list is >= max*max.
func manyTinyTxCases(c *Ctx, r *Rng) []sqCase {
	var out []sqCase
	nss := blobNamespaces(r, 2)
	for _, max := range []int{2, 4} {
		var l []genTx
		for i := 0; i < max*max+r.Intn(3); i++ {
			l = append(l, genTx{raw: r.Bytes(1 + r.Intn(4))})
		}
		for k := 0; k < max/2; k++ {
			b := randBlob(r, nss, 100)
			b.data = r.Bytes(1 + r.Intn(400))
			bl := []genBlob{b}
			l = append(l, genTx{raw: blobTxWithInner(mockPFB(r.Bytes(mockPFBExtraBytes), []uint32{uint32(len(b.data))}), bl), blobs: bl})
		}
		out = append(out, sqCase{txs: l, max: max, thr: 64})
		c.count("more_txs_than_shares")
	}
	return out
}

// builderObs: what a caller can see of a builder without exporting it (the two counters are exported fields)
func builderObs(b *square.Builder) string {
	return fmt.Sprintf("%d/%d/%d/%d/%d/%d/%d/%d", b.CurrentSize(), len(b.Txs), len(b.Pfbs), len(b.Blobs), b.TxCounter.Size(), b.PfbCounter.Size(),
		b.TxCounter.Remainder(), b.PfbCounter.Remainder())
}

// refusedInFirstShareCases: an ordinary transaction that does not fit is offered (and refused) while the tx
// sequence is still INSIDE its first compact share (474 content bytes, the later ones 478), and the
// transactions kept afterwards end w bytes behind the end of share k (w = 0..5: the difference between the two
// capacities is 4): a rollback that forgets which share it is in miscounts exactly there.
func refusedInFirstShareCases(c *Ctx, r *Rng) []sqCase {
	var out []sqCase
	for _, max := range []int{2, 4} {
		for k := 0; k < max; k++ {
			for w := 0; w <= 5; w++ {
				a := 1 + r.Intn(120)
				if (k+w)%2 == 1 {
					a = 130 + r.Intn(200)
				}
				used := len(refDelimited(make([]byte, a)))
				target := 474 + 478*k + w - used // stream bytes of the filler unit
				fl := target - 3
				for fl < 1 || len(refDelimited(make([]byte, fl))) < target {
					fl++
				}
				if len(refDelimited(make([]byte, fl))) != target {
					continue
				}
				big := genTx{raw: r.Bytes(478*max*max + 100)}
				l := []genTx{{raw: r.Bytes(a)}, big, {raw: r.Bytes(fl)}}
				if w%2 == 1 {
					// the refused one offered twice, and a small blob transaction behind everything
					l = []genTx{{raw: r.Bytes(a)}, big, big, {raw: r.Bytes(fl)}}
				}
				out = append(out, sqCase{txs: l, max: max, thr: 64})
				c.count("refused_inside_first_compact_share")
			}
		}
	}
	return out
}

// blobBeforeNormalCases: a blob transaction whose blob is wider than one subtree (thresholds 1-3, 4..16 shares)
// IN FRONT OF ordinary transactions in the input, one of which opens a new compact share: Build appends in input
// order, Construct appends the kept list (ordinary first) - the two must still estimate and lay out the same square
func blobBeforeNormalCases(c *Ctx, r *Rng) []sqCase {
	var out []sqCase
	nss := blobNamespaces(r, 2)
	for _, thr := range []int{1, 2, 3} {
		for n := 4; n <= 16; n++ {
			b := randBlob(r, nss, 100)
			b.ver, b.signer = 0, nil
			b.data = r.Bytes(478 + 482*(n-1) - r.Intn(300))
			bl := []genBlob{b}
			bt := genTx{raw: blobTxWithInner(r.Bytes(40+r.Intn(100)), bl), blobs: bl}
			l := []genTx{bt, {raw: r.Bytes(50 + r.Intn(300))}}
			if n%2 == 0 {
				l = append(l, genTx{raw: r.Bytes(500 + r.Intn(600))})
			}
			if n%3 == 0 {
				l = append([]genTx{{raw: r.Bytes(20 + r.Intn(100))}}, l...)
			}
			out = append(out, sqCase{txs: l, max: 64, thr: thr})
			c.count("blob_tx_before_ordinary_small_threshold")
		}
	}
	return out
}

// fullSquareExactFitCases: ordinary transactions bring the estimate to exactly max*max with the last tx share
// partly filled (f free bytes, past the first share); the next transaction fills those f bytes EXACTLY (accepted:
// the estimate does not grow), or needs one byte more (refused), then a small one that still fits.
func fullSquareExactFitCases(c *Ctx, r *Rng) []sqCase {
	var out []sqCase
	for _, max := range []int{2, 4} {
		for v := 0; v < 3; v++ {
			f := 3 + r.Intn(300)
			total := 474 + 478*(max*max-1) - f // stream bytes after the first transaction
			first := total - 3
			for len(refDelimited(make([]byte, first))) < total {
				first++
			}
			if len(refDelimited(make([]byte, first))) != total {
				continue
			}
			fit := f - 1
			if fit >= 128 {
				fit = f - 2
			}
			if fit < 1 || len(refDelimited(make([]byte, fit))) != f {
				continue
			}
			l := []genTx{{raw: r.Bytes(first)}}
			switch v {
			case 0:
				l = append(l, genTx{raw: r.Bytes(fit)})
			case 1:
				l = append(l, genTx{raw: r.Bytes(fit + 1)}, genTx{raw: r.Bytes(fit)})
			default:
				l = append(l, genTx{raw: r.Bytes(fit / 2)}, genTx{raw: r.Bytes(fit)}, genTx{raw: r.Bytes(1)})
			}
			out = append(out, sqCase{txs: l, max: max, thr: 64})
			c.count("full_square_exact_fit")
		}
	}
	return out
}

// hugeMaxCases: tiny squares built with a HUGE configured maximum (2048, 4096, 2^16, 2^20 - all valid powers
// of two): one blob transaction whose wrapped PFB, with the specified placeholder index 16384 (3 bytes), fills the
// first PFB share to the last byte - a placeholder derived from the maximum would be a byte longer.
func hugeMaxCases(c *Ctx, r *Rng) []sqCase {
	var out []sqCase
	nss := blobNamespaces(r, 2)
	b := randBlob(r, nss, 100)
	b.data = r.Bytes(1 + r.Intn(300))
	bl := []genBlob{b}
	best := -1
	for L := 300; L <= 470; L++ {
		raw := blobTxWithInner(make([]byte, L), bl)
		rt := classify(raw)
		if len(refDelimited(refIndexWrapper(rt.inner, []uint32{16384}))) == 474 {
			best = L
		}
	}
	if best < 0 {
		return nil
	}
	for _, max := range []int{512, 1024, 2048, 4096, 1 << 16, 1 << 20} {
		for _, d := range []int{0, 1} {
			raw := blobTxWithInner(r.Bytes(best+d), bl)
			out = append(out, sqCase{txs: []genTx{{raw: raw, blobs: bl}}, max: max, thr: 64})
			c.count("huge_configured_maximum")
		}
	}
	return out
}

// sameNsPairCases: one blob transaction with two consecutive blobs of the SAME namespace and every pair of
// share counts 1..9 (threshold 1: widths 1, 2, 4), behind 0..3 shares of ordinary transactions so that the first
// blob starts at every alignment: the second blob needs its own worst-case padding whatever precedes it.
func sameNsPairCases(c *Ctx, r *Rng) []sqCase {
	var out []sqCase
	ns := blobNamespaces(r, 1)[0]
	for a := 1; a <= 9; a++ {
		for b := 1; b <= 9; b++ {
			lead := (a + 2*b) % 4
			var l []genTx
			if lead > 0 {
				l = append(l, genTx{raw: r.Bytes(474 + 478*(lead-1) - 5)})
			}
			b1 := genBlob{ns: ns, data: r.Bytes(478 + 482*(a-1) - r.Intn(5))}
			b2 := genBlob{ns: ns, data: r.Bytes(478 + 482*(b-1) - r.Intn(5))}
			bl := []genBlob{b1, b2}
			l = append(l, genTx{raw: blobTxWithInner(mockPFB(r.Bytes(mockPFBExtraBytes), []uint32{uint32(len(b1.data)), uint32(len(b2.data))}), bl), blobs: bl})
			out = append(out, sqCase{txs: l, max: 8, thr: 1})
		}
	}
	c.count("same_namespace_pair_all_share_counts")
	return out
}

// refusedLowNamespaceCases: a kept blob in a high namespace, a REFUSED blob transaction in a low namespace,
// then a kept blob in a namespace in between (and permutations): whatever a refused append looked at must
// leave no trace in how the kept blobs are ordered.
func refusedLowNamespaceCases(c *Ctx, r *Rng) []sqCase {
	var out []sqCase
	mkNs := func(b byte) []byte {
		ns := make([]byte, 29)
		ns[20], ns[28] = b, 7
		return ns
	}
	mk := func(ns []byte, n int) genTx {
		b := genBlob{ns: ns, data: r.Bytes(n)}
		bl := []genBlob{b}
		return genTx{raw: blobTxWithInner(mockPFB(r.Bytes(mockPFBExtraBytes), []uint32{uint32(n)}), bl), blobs: bl}
	}
	for _, order := range [][3]byte{{0x50, 0x10, 0x30}, {0x30, 0x10, 0x50}, {0x50, 0x60, 0x30}, {0x30, 0x50, 0x10}} {
		l := []genTx{mk(mkNs(order[0]), 1+r.Intn(400)), mk(mkNs(order[1]), 16*482+100), mk(mkNs(order[2]), 1+r.Intn(400))}
		out = append(out, sqCase{txs: l, max: 4, thr: 64})
		c.count("refused_blob_tx_between_kept_ones_by_namespace")
	}
	return out
}

// hugeInnerCases: between kept transactions, a blob transaction whose INNER transaction alone is larger than all the
// compact shares of the largest square (refused whatever its blobs), after an accepted blob tx and before
// transactions that still fit - and the same with a huge ordinary transaction.
func hugeInnerCases(c *Ctx, r *Rng) []sqCase {
	var out []sqCase
	nss := blobNamespaces(r, 2)
	mkSmall := func(in int) genTx {
		b := randBlob(r, nss, 100)
		b.data = r.Bytes(1 + r.Intn(300))
		bl := []genBlob{b}
		return genTx{raw: blobTxWithInner(r.Bytes(in), bl), blobs: bl}
	}
	for _, max := range []int{2, 4} {
		for v := 0; v < 2; v++ {
			huge := mkSmall(max*max*478 + 400 + r.Intn(400))
			l := []genTx{mkSmall(60 + r.Intn(300)), huge, {raw: r.Bytes(100 + r.Intn(300))}}
			if v == 1 {
				l = []genTx{{raw: r.Bytes(50)}, mkSmall(200), {raw: r.Bytes(max*max*478 + 500)}, huge, mkSmall(100)}
			}
			out = append(out, sqCase{txs: l, max: max, thr: 64})
			c.count("inner_tx_larger_than_the_square")
		}
	}
	return out
}

// rowPaddingSweep: reserved padding of a whole row in front of the first blob - the wrapped PFB crosses a share
// boundary by its worst-case size only (inner length swept over 440..480), ordinary transactions of 1..3 shares in
// front, and a first blob whose subtree width equals the square side (threshold 1, 5 shares in a 4x4 square).
func rowPaddingSweep(c *Ctx, r *Rng) []sqCase {
	var out []sqCase
	nss := blobNamespaces(r, 1)
	for k := 0; k < 3*41; k++ {
		inner := 440 + k%41
		lead := 1 + k/41
		b := genBlob{ns: nss[0], data: r.Bytes(2000)}
		bl := []genBlob{b}
		l := []genTx{{raw: r.Bytes(474 + 478*(lead-1) - 10 - r.Intn(300))}, {raw: blobTxWithInner(r.Bytes(inner), bl), blobs: bl}}
		out = append(out, sqCase{txs: l, max: 4, thr: 1})
	}
	c.count("row_of_reserved_padding_sweep")
	return out
}

// manyIndexedBlobsSweep: a blob transaction with one 200-share blob followed by 100 one-share blobs (fewer than
// 128 indexes whose packed encoding is longer than 127 bytes: count and byte length have different prefix
// widths), then two small blob transactions; the first inner transaction swept over 40 lengths around every
// residue class, so that a one-byte error in a recomputed wrapper size moves a range across a share boundary.
func manyIndexedBlobsSweep(c *Ctx, r *Rng) []sqCase {
	var out []sqCase
	ns := blobNamespaces(r, 1)[0]
	var bl []genBlob
	bl = append(bl, genBlob{ns: ns, data: r.Bytes(478 + 482*199)})
	for i := 0; i < 100; i++ {
		bl = append(bl, genBlob{ns: ns, data: r.Bytes(1 + r.Intn(400))})
	}
	small := func() genTx {
		b := genBlob{ns: ns, data: r.Bytes(1 + r.Intn(300))}
		return genTx{raw: blobTxWithInner(r.Bytes(50+r.Intn(200)), []genBlob{b}), blobs: []genBlob{b}}
	}
	s1, s2 := small(), small()
	for L := 1; L <= 520; L += 13 {
		l := []genTx{{raw: blobTxWithInner(r.Bytes(L+r.Intn(13)), bl), blobs: bl}, s1, s2}
		out = append(out, sqCase{txs: l, max: 32, thr: 64})
	}
	c.count("many_indexed_blobs_sweep")
	return out
}

// duplicateTxCases: lists in which the same ordinary transaction (byte-identical) occurs several times with
// share boundaries in between, and the same blob transaction twice - a range looked up by content instead of
// by position returns the range of another occurrence.
func duplicateTxCases(c *Ctx, r *Rng) []sqCase {
	var out []sqCase
	nss := blobNamespaces(r, 2)
	for v := 0; v < 6; v++ {
		a := r.Bytes(5 + r.Intn(30))
		var l []genTx
		switch v {
		case 0:
			l = []genTx{{raw: a}, {raw: r.Bytes(1000)}, {raw: a}}
		case 1:
			a = r.Bytes(200)
			l = []genTx{{raw: a}, {raw: a}, {raw: a}, {raw: a}, {raw: a}}
		case 2:
			l = []genTx{{raw: r.Bytes(470)}, {raw: a}, {raw: r.Bytes(480)}, {raw: a}, {raw: a}}
		default:
			pool := [][]byte{a, r.Bytes(300 + r.Intn(300))}
			for k := 0; k < 5+r.Intn(4); k++ {
				l = append(l, genTx{raw: pool[r.Intn(2)]})
			}
		}
		if v >= 2 {
			b := randBlob(r, nss, 900)
			bl := []genBlob{b}
			raw := blobTxWithInner(mockPFB(r.Bytes(mockPFBExtraBytes), []uint32{uint32(len(b.data))}), bl)
			l = append(l, genTx{raw: raw, blobs: bl}, genTx{raw: raw, blobs: bl})
		}
		out = append(out, sqCase{txs: l, max: 16, thr: 64})
		c.count("duplicate_txs")
	}
	return out
}

// nearExactFillCases: one blob transaction whose single large blob (>= 120 shares) brings the worst-case
// estimate to exactly max*max, one share less, or one share more, for thresholds from 1 to beyond the blob's
// share count (so that the padding before it is between 0 and width-1), after nothing / a small blob
// transaction / an ordinary transaction; followed by small transactions.  Any capacity pre-check that is not
// the estimate itself shows at these fills.
func nearExactFillCases(c *Ctx, r *Rng) []sqCase {
	var out []sqCase
	nss := blobNamespaces(r, 3)
	maxes := []int{16}
	if c.tier == "thorough" {
		maxes = append(maxes, 32)
	}
	for _, max := range maxes {
		for _, thr := range []int{1, 64, 128, 256, 1000} {
			for prefix := 0; prefix < 3; prefix++ {
				var pre []genTx
				switch prefix {
				case 1:
					sb := randBlob(r, nss, 300)
					sbl := []genBlob{sb}
					pre = append(pre, genTx{raw: blobTxWithInner(mockPFB(r.Bytes(mockPFBExtraBytes), []uint32{uint32(len(sb.data))}), sbl), blobs: sbl})
				case 2:
					pre = append(pre, genTx{raw: r.Bytes(300)})
				}
				mk := func(shares int, full bool) genTx {
					b := randBlob(r, nss, 100)
					b.ver = 0
					b.signer = nil
					n := 478 + 482*(shares-1)
					if !full {
						n -= 481
					}
					b.data = make([]byte, n)
					b.data[0] = byte(shares)
					bl := []genBlob{b}
					return genTx{raw: blobTxWithInner(mockPFB(r.Bytes(mockPFBExtraBytes), []uint32{uint32(n)}), bl), blobs: bl}
				}
				est := func(l []genTx) int {
					var normals [][]byte
					var pfbs []refTx
					for _, t := range l {
						if t.blobs == nil {
							normals = append(normals, t.raw)
						} else {
							pfbs = append(pfbs, classify(t.raw))
						}
					}
					return refEstimate(normals, pfbs, thr)
				}
				// the largest share count that still fits
				best := 0
				for sh := max * max; sh >= 100; sh-- {
					if est(append(append([]genTx{}, pre...), mk(sh, true))) <= max*max {
						best = sh
						break
					}
				}
				if best == 0 {
					continue
				}
				for _, d := range []int{0, -1, 1} {
					l := append(append([]genTx{}, pre...), mk(best+d, r.Bool(70)))
					l = append(l, genTx{raw: r.Bytes(1 + r.Intn(100))})
					out = append(out, sqCase{txs: l, max: max, thr: thr})
					c.count("near_exact_fill_big_blob")
				}
			}
		}
	}
	return out
}

// ---- C12 ----
func shareOfOffset(p int) int {
	if p < 474 {
		return 0
	}
	return 1 + (p-474)/478
}

// pfbAtBoundaryCases: two blob transactions; the first carries a tiny blob in a high namespace, the second a
// blob of 130-220 shares in a low namespace, which pushes the first one's blob past share index 128 (a 2-byte
// varint).  The first inner tx is sized so that its REAL wrapped PFB (as it appears in the square) is exactly
// 474, 475 or 476 bytes with its length prefix: the range of that PFB depends on transactions that come later.
func pfbAtBoundaryCases(c *Ctx, r *Rng) []sqCase {
	var out []sqCase
	for _, target := range []int{475, 475, 953, 474, 476} {
		var hi, lo []byte
		for try := 0; try < 20 && (hi == nil || bytes.Equal(hi, lo)); try++ {
			nss := blobNamespaces(r, 2)
			hi, lo = nss[0], nss[1]
			if bytes.Compare(hi, lo) < 0 {
				hi, lo = lo, hi
			}
		}
		if bytes.Equal(hi, lo) {
			continue
		}
		small := []genBlob{{ns: hi, data: r.Bytes(1 + r.Intn(200))}}
		bigb := []genBlob{{ns: lo, data: r.Bytes(478 + 482*(130+r.Intn(90)))}}
		t2 := genTx{raw: blobTxWithInner(r.Bytes(50+r.Intn(100)), bigb), blobs: bigb}
		inner := target - 35
		var s sqCase
		for it := 0; it < 8; it++ {
			t1 := genTx{raw: blobTxWithInner(r.Bytes(inner), small), blobs: small}
			s = sqCase{max: 32, thr: 64, txs: []genTx{t1, t2}}
			sq, err := square.Construct(rawsOf(s.txs), s.max, s.thr)
			if err != nil {
				break
			}
			w, err := sq.WrappedPFBs()
			if err != nil || len(w) == 0 {
				break
			}
			got := len(refDelimited(w[0]))
			if got == target {
				out = append(out, s)
				c.count("pfb_real_size_at_boundary")
				break
			}
			inner += target - got
			if inner < 1 {
				break
			}
		}
	}
	return out
}

func genC12(c *Ctx) {
	shortInner = true
	defer func() { shortInner = false }()
	defer func() {
		for i := 0; i < 25*c.scale; i++ {
			liveBuilderHistory(c, c.rng, randSquareCase(c, c.rng, false, false), "Builder (live)")
			if i%12 == 5 {
				liveBuilderHistory(c, c.rng, manyBlobLiveCase(c.rng), "Builder (live, more than 64 blobs)")
			}
			if i%12 == 7 {
				sharedBlobObjectHistory(c, c.rng)
			}
		}
	}()
	c.rule = "ordered lists (as kept by greedy builds) with tx sizes ending exactly on share ends and PFBs one varint byte shorter than the worst case; TxShareRange for every index -2..len+1 vs the set of shares holding a byte of the unit (recomputed from stream offsets over the real wrapped PFBs), ParseTxs of exactly that range, splitter ShareRanges; non-trivial = distinct (case, index) spanning or starting after the first share"
	r := c.rng
	special := pfbAtBoundaryCases(c, r)
	special = append(special, duplicateTxCases(c, r)...)
	special = append(special, manyTinyTxCases(c, r)...)
	special = append(special, manyIndexedBlobsSweep(c, r)...)
	for i := 0; i < 150*c.scale+len(special); i++ {
		var s sqCase
		if i < len(special) {
			s = special[i]
		} else {
			s = randSquareCase(c, r, true, r.Bool(30))
		}
		// exact-fill ordinary transactions in ~1/3 of the cases
		if i >= len(special) && r.Bool(35) {
			off := 0
			for k := range s.txs {
				if s.txs[k].blobs != nil {
					continue
				}
				room := 474 - off
				if off >= 474 {
					room = 478 - (off-474)%478
				}
				l := room - 2
				if l < 1 {
					l = 1
				}
				if l < 128 {
					l = room - 1
				}
				if l < 1 {
					l = 1
				}
				s.txs[k].raw = normalTx(r, l)
				off += len(refDelimited(s.txs[k].raw))
			}
		}
		_, kept, err := keptCase(s)
		if err != nil {
			c.check(false, "Build", "error", map[string]any{"case": s.shape()})
			continue
		}
		sq, err := square.Construct(kept, s.max, s.thr)
		wit := map[string]any{"case": s.shape()}
		if !c.check(err == nil, "Construct", "error", wit) {
			continue
		}
		wpfbs, err := sq.WrappedPFBs()
		if !c.check(err == nil, "WrappedPFBs", "error", wit) {
			continue
		}
		// which kept transactions are blob transactions is known from how the generator built them
		// (not asked of the decoder under test)
		builtAsBlobTx := map[string]bool{}
		for _, t := range s.txs {
			if t.blobs != nil {
				builtAsBlobTx[string(t.raw)] = true
			}
		}
		var normals [][]byte
		nBlobTx := 0
		for _, k := range kept {
			if !builtAsBlobTx[string(k)] {
				normals = append(normals, k)
			} else {
				nBlobTx++
			}
		}
		if !c.check(len(wpfbs) == nBlobTx, "WrappedPFBs", "the square does not hold one wrapped PFB per kept blob transaction", wit) {
			continue
		}
		txShares := 0
		{
			total := 0
			for _, t := range normals {
				total += len(refDelimited(t))
			}
			txShares = refCompactNeeded(total)
		}
		keptHex := joinHexList(kept)
		for idx := -2; idx <= len(kept)+1; idx++ {
			c.add("txrange", strconv.Itoa(s.max), strconv.Itoa(s.thr), strconv.Itoa(idx), keptHex)
			rg, err := square.TxShareRange(kept, idx, s.max, s.thr)
			w := map[string]any{"case": s.shape(), "index": idx}
			if idx < 0 || idx >= len(kept) {
				c.check(err != nil, "TxShareRange", "no error for an out-of-range index", w)
				continue
			}
			var units [][]byte
			base := 0
			k := idx
			var unit []byte
			if idx < len(normals) {
				units = normals
				unit = normals[idx]
			} else {
				units = wpfbs
				base = txShares
				k = idx - len(normals)
				unit = wpfbs[k]
			}
			off := 0
			for j := 0; j < k; j++ {
				off += len(refDelimited(units[j]))
			}
			end := off + len(refDelimited(units[k]))
			wantS, wantE := base+shareOfOffset(off), base+shareOfOffset(end-1)+1
			c.check(err == nil && rg.Start == wantS && rg.End == wantE, "TxShareRange", "not exactly the shares containing a byte of the length-prefixed transaction", w)
			if err == nil && rg.Start >= 0 && rg.End <= len(sq) && rg.Start < rg.End {
				parsed, perr := share.ParseTxs(sq[rg.Start:rg.End])
				found := false
				for _, p := range parsed {
					if bytes.Equal(p, unit) {
						found = true
					}
				}
				c.check(perr == nil && found, "ParseTxs(range)", "parsing just the reported shares does not yield the transaction", w)
			}
			if wantS > 0 || wantE-wantS > 1 {
				c.mark(fmt.Sprintf("%s #%d", s.shape(), idx))
			}
		}
		// lists that have NO square (something behind - or in front of - the queried transaction does not fit,
		// or an ordinary transaction follows a blob transaction): every index must give an error, exactly as
		// Construct does; never a range for a square that does not exist
		{
			var ordered [][]byte
			for _, t := range s.txs {
				if t.blobs == nil {
					ordered = append(ordered, t.raw)
				}
			}
			nOrd := len(ordered)
			for _, t := range s.txs {
				if t.blobs != nil {
					ordered = append(ordered, t.raw)
				}
			}
			var lists [][][]byte
			if len(kept) < len(s.txs) {
				lists = append(lists, ordered) // everything, refused ones included
			}
			if nOrd > 0 && nOrd < len(ordered) && len(ordered) <= 12 {
				// the first ordinary transaction moved behind the blob transactions
				lists = append(lists, append(append([][]byte{}, ordered[1:]...), ordered[0]))
			}
			if len(normals) > 0 && s.max <= 16 {
				// the kept list with one ordinary transaction larger than the whole square behind the kept ordinary ones
				l := append(append([][]byte{}, normals...), r.Bytes(478*s.max*s.max+100))
				lists = append(lists, append(l, kept[len(normals):]...))
			}
			for _, l := range lists {
				if _, cerr := square.Construct(l, s.max, s.thr); cerr == nil {
					continue
				}
				lhex := joinHexList(l)
				for _, idx := range []int{0, nOrd - 1, nOrd, len(l) - 1} {
					if idx < 0 || idx >= len(l) {
						continue
					}
					small := len(lhex) < 60000 // larger lists: implementation and oracle only
					if small {
						c.add("txrange", strconv.Itoa(s.max), strconv.Itoa(s.thr), strconv.Itoa(idx), lhex)
					}
					_, err := square.TxShareRange(l, idx, s.max, s.thr)
					c.check(err != nil, "TxShareRange", "a range is reported for a list of which Construct makes no square", map[string]any{"case": s.shape(), "index": idx, "txs": len(l)})
					if idx >= nOrd {
						if small {
							c.add("blobrange", strconv.Itoa(s.max), strconv.Itoa(s.thr), strconv.Itoa(idx), "0", lhex)
						}
						_, err := square.BlobShareRange(l, idx, 0, s.max, s.thr)
						c.check(err != nil, "BlobShareRange", "a range is reported for a list of which Construct makes no square", map[string]any{"case": s.shape(), "index": idx, "txs": len(l)})
					}
				}
				c.count("range_query_on_list_without_square")
			}
		}
		// splitter ranges agree (ordinary transactions, distinct ones only)
		css := share.NewCompactShareSplitter(share.TxNamespace, 0)
		count := map[string]int{}
		for _, t := range normals {
			_ = css.WriteTx(t)
			count[string(t)]++
		}
		ranges := css.ShareRanges(0)
		{
			// what the caller does with a returned map must not change later answers
			first := fmt.Sprint(ranges)
			scratch := css.ShareRanges(0)
			for k2, v := range scratch {
				v.End += 5
				scratch[k2] = v
			}
			scratch[sha256.Sum256([]byte("not a transaction"))] = share.NewRange(7, 9)
			again := css.ShareRanges(0)
			c.check(fmt.Sprint(again) == first, "CompactShareSplitter.ShareRanges", "a later answer reflects what the caller did to an earlier one", map[string]any{"case": s.shape()})
			shifted := css.ShareRanges(3)
			okShift := len(shifted) == len(ranges)
			for k2, v := range ranges {
				okShift = okShift && shifted[k2].Start == v.Start+3 && shifted[k2].End == v.End+3
			}
			c.check(okShift, "CompactShareSplitter.ShareRanges", "ranges with an offset are not the ranges shifted by it", map[string]any{"case": s.shape()})
		}
		for k, t := range normals {
			if count[string(t)] != 1 {
				continue
			}
			rg, err := square.TxShareRange(kept, k, s.max, s.thr)
			sr := ranges[sha256.Sum256(t)]
			c.check(err == nil && sr.Start == rg.Start && sr.End == rg.End, "CompactShareSplitter.ShareRanges", "differs from TxShareRange", map[string]any{"case": s.shape(), "index": k})
		}
	}
}

// ---- C14 ----
func genC14(c *Ctx) {
	emptyTxOK = true
	defer func() { emptyTxOK = false }()
	shortInner = true
	defer func() { shortInner = false }()
	c.rule = "operation histories: compact splitter {write, export, count} and builder {append tx / blob tx (accepted or refused), export, find range, find blob index, get wrapped PFB}; after every op the projected observable is compared with the model, and the final export with a twin object fed only the writes / accepted appends; non-trivial = distinct history with an export or query strictly between two writes/appends"
	r := c.rng
	// splitter half
	for i := 0; i < 260*c.scale; i++ {
		ns := txNs
		if r.Bool(40) {
			ns = pfbNs
		}
		k := 1 + r.Intn(8)
		txs := compactTxList(c, r, k)
		var ops []string
		between := false
		for j, t := range txs {
			ops = append(ops, "w"+hx(t))
			for r.Bool(35) {
				if r.Bool(60) {
					ops = append(ops, "e")
				} else {
					ops = append(ops, "c")
				}
				if j < len(txs)-1 {
					between = true
				}
			}
		}
		ops = append(ops, "e")
		c.add("compact", hx(ns), "0", strings.Join(ops, ","))
		// oracle: twin fed only the writes
		a := share.NewCompactShareSplitter(nsOf(ns), 0)
		for _, op := range ops {
			switch op[0] {
			case 'w':
				_ = a.WriteTx(unhx(op[1:]))
			case 'e':
				_, _ = a.Export()
			case 'c':
				_ = a.Count()
			}
		}
		fin, err := a.Export()
		twin := share.NewCompactShareSplitter(nsOf(ns), 0)
		for _, t := range txs {
			_ = twin.WriteTx(t)
		}
		want, err2 := twin.Export()
		shape := histShape(ops)
		wit := map[string]any{"history": shape}
		same := err == nil && err2 == nil && len(fin) == len(want)
		if same {
			for j := range fin {
				if !bytes.Equal(fin[j].ToBytes(), want[j].ToBytes()) {
					same = false
				}
			}
		}
		c.check(same, "CompactShareSplitter", "final export depends on exports/counts between writes", wit)
		c.check(fmt.Sprint(a.ShareRanges(0)) == fmt.Sprint(twin.ShareRanges(0)), "CompactShareSplitter.ShareRanges", "depend on exports/counts between writes", wit)
		if between {
			c.mark("splitter " + shape)
		}
	}
	for _, h := range boundaryExportHistories(r) {
		runSplitterHistory(c, pick(r, [][]byte{txNs, pfbNs}), h, "CompactShareSplitter")
	}
	for i := 0; i < 15*c.scale; i++ {
		liveBuilderHistory(c, r, randSquareCase(c, r, false, false), "Builder (live)")
	}
	exportThenShiftSweep(c, r, "Builder (export, append, export)")
	// builder half
	for i := 0; i < 140*c.scale; i++ {
		s := randSquareCase(c, r, false, true)
		if i%7 == 3 {
			// accepted one-blob transactions whose worst-case wrapped PFB ends 1 or 2 bytes past the first
			// compact share (so its real size, with 1-2 byte indexes, does not), an export or query, then a
			// blob transaction refused for its blob, then more accepted ones
			nss := blobNamespaces(r, 2)
			worst := []uint32{16384}
			inner := 300
			target := 475 + r.Intn(2)
			for it := 0; it < 8; it++ {
				w := len(refDelimited(refIndexWrapper(make([]byte, inner), worst)))
				if w == target {
					break
				}
				inner -= w - target
			}
			mkSmall := func(in int) genTx {
				b := randBlob(r, nss, 100)
				b.data = r.Bytes(1 + r.Intn(300))
				bl := []genBlob{b}
				return genTx{raw: blobTxWithInner(r.Bytes(in), bl), blobs: bl}
			}
			big := randBlob(r, nss, 100)
			big.ver, big.signer = 0, nil
			big.data = r.Bytes(8*8*482 + 100)
			bigl := []genBlob{big}
			s = sqCase{max: 8, thr: 64, txs: []genTx{mkSmall(inner), {raw: blobTxWithInner(r.Bytes(100+r.Intn(200)), bigl), blobs: bigl}, mkSmall(60 + r.Intn(200)), mkSmall(60 + r.Intn(300))}}
			c.count("pfb_one_byte_past_boundary_then_refusal")
		}
		if i%7 == 5 {
			// a refused blob transaction with MORE BLOBS THAN THE SQUARE HAS SHARES (each a few bytes) and an
			// inner transaction of 300-700 bytes, between accepted small ones: whatever shortcut refuses it
			// must leave nothing of its wrapped PFB behind
			nss := blobNamespaces(r, 3)
			max := pick(r, []int{2, 4})
			mk := func(in, nb int) genTx {
				var bl []genBlob
				for k := 0; k < nb; k++ {
					b := randBlob(r, nss, 100)
					b.ver, b.signer = 0, nil
					b.data = r.Bytes(1 + r.Intn(12))
					bl = append(bl, b)
				}
				return genTx{raw: blobTxWithInner(r.Bytes(in), bl), blobs: bl}
			}
			s = sqCase{max: max, thr: 64, txs: []genTx{mk(60+r.Intn(250), 1), mk(300+r.Intn(400), max*max+1+r.Intn(3)), mk(20+r.Intn(300), 1), mk(20+r.Intn(200), 1)}}
			c.count("refused_more_blobs_than_shares")
		}
		var ops []string
		between := false
		for j, t := range s.txs {
			if t.blobs == nil {
				ops = append(ops, "t"+hx(t.raw))
			} else {
				ops = append(ops, "b"+hx(t.raw))
			}
			if r.Intn(6) == 0 {
				// a blob transaction WITHOUT blobs appended directly (the decoders refuse one, the builder
				// API accepts it as a PFB with no share indexes); inner txs from a few bytes to more than a share
				ops = append(ops, "z"+hx(r.Bytes(pick(r, []int{1, 30, 200, 300, 440, 470, 1200}))))
				c.count("zero_blob_append")
			}
			for r.Bool(40) {
				switch r.Intn(5) {
				case 0, 1:
					ops = append(ops, "x")
				case 2:
					ops = append(ops, "r"+strconv.Itoa(r.Intn(len(s.txs)+2)-1))
				case 3:
					ops = append(ops, fmt.Sprintf("s%d/%d", r.Intn(len(s.txs)+1), r.Intn(3)))
				case 4:
					ops = append(ops, "w"+strconv.Itoa(r.Intn(len(s.txs)+1)))
				}
				if j < len(s.txs)-1 {
					between = true
				}
			}
		}
		ops = append(ops, "x")
		c.add("builderops", strconv.Itoa(s.max), strconv.Itoa(s.thr), strings.Join(ops, ","))
		// oracle
		b, err := square.NewBuilder(s.max, s.thr)
		twin, _ := square.NewBuilder(s.max, s.thr)
		if err != nil {
			continue
		}
		for _, op := range ops {
			arg := op[1:]
			switch op[0] {
			case 't':
				if b.AppendTx(unhx(arg)) {
					twin.AppendTx(unhx(arg))
				}
			case 'b':
				bt, _, _ := tx.UnmarshalBlobTx(unhx(arg))
				bt2, _, _ := tx.UnmarshalBlobTx(unhx(arg))
				if b.AppendBlobTx(bt) {
					twin.AppendBlobTx(bt2)
				}
			case 'z':
				if b.AppendBlobTx(&tx.BlobTx{Tx: unhx(arg)}) {
					twin.AppendBlobTx(&tx.BlobTx{Tx: unhx(arg)})
				}
			case 'x':
				_, _ = b.Export()
			case 'r':
				_, _ = b.FindTxShareRange(atoi(arg))
			case 's':
				pj := strings.Split(arg, "/")
				_, _ = b.FindBlobStartingIndex(atoi(pj[0]), atoi(pj[1]))
			case 'w':
				_, _ = b.GetWrappedPFB(atoi(arg))
			}
		}
		fin, err := b.Export()
		want, err2 := twin.Export()
		shape := s.shape() + " | " + histShape(ops)
		c.check(err == nil && err2 == nil && sameSquare(fin, want), "Builder", "final export depends on exports, queries or refused appends between accepted appends", map[string]any{"history": shape})
		if between {
			c.mark("builder " + shape)
		}
	}
}

func histShape(ops []string) string {
	var sb strings.Builder
	for _, op := range ops {
		switch op[0] {
		case 'w', 't', 'b':
			if len(op) > 1 && (op[0] == 'w' && strings.ContainsAny(op[1:2], "0123456789abcdef-") && len(op) > 4 || op[0] != 'w') {
				fmt.Fprintf(&sb, "%c%d ", op[0], (len(op)-1)/2)
			} else {
				sb.WriteString(op + " ")
			}
		default:
			sb.WriteString(op + " ")
		}
	}
	return strings.TrimSpace(sb.String())
}

// ---- C20 ----
func genC20(c *Ctx) {
	emptyTxOK = true
	defer func() { emptyTxOK = false }()
	c.rule = "GetShareRangeForNamespace on sorted namespace multisets (0-40 shares) with every present namespace, every gap, below-first and above-last; ParseShares (with and without padding) on constructed squares incl. version 1 blobs: tiling, single namespace, declared lengths, and with padding ignored exactly tx sequence, PFB sequence, one sequence per blob with payload = data; non-trivial = distinct (share list, query) or distinct square with a blob"
	r := c.rng
	for i := 0; i < 120*c.scale; i++ {
		n := r.Intn(41)
		nss := blobNamespaces(r, 1+r.Intn(6))
		// version 255 namespaces with SMALL ids (constructible: NewNamespace(255, id)) and an arbitrary version:
		// the order is version first, then id
		v255small := make([]byte, 29)
		v255small[0], v255small[28] = 0xff, byte(1+r.Intn(5))
		v255rand := append([]byte{0xff}, r.Bytes(28)...)
		vOther := append([]byte{byte(1 + r.Intn(254))}, r.Bytes(28)...)
		nss = append(nss, v255small, v255rand, vOther)
		nss = append(nss, txNs, pfbNs, tailNs)
		var list [][]byte
		// the first iterations: LONG lists (130..530 shares) made of long runs, so that runs begin before and
		// reach across indexes 32, 64, 128, 256, 512 (whatever stride a faster search might probe at)
		long := i < 4
		if long {
			n = 130 + r.Intn(400)
			for len(list) < n {
				ns := pick(r, nss)
				for k := 1 + r.Intn(200); k > 0 && len(list) < n; k-- {
					list = append(list, ns)
				}
			}
			c.count("nsrange_long_list")
		}
		for j := len(list); j < n; j++ {
			list = append(list, pick(r, nss))
		}
		sort.Slice(list, func(a, b int) bool { return bytes.Compare(list[a], list[b]) < 0 })
		raws := make([][]byte, n)
		for j, ns := range list {
			raws[j] = refPadding(ns, 0)
			raws[j][30+r.Intn(400)] = byte(r.Intn(256))
			// sequence starts and continuation shares, versions 0/1: a run may begin with a continuation share
			raws[j][29] = byte(r.Intn(4))
			if raws[j][29]&1 == 1 && r.Bool(40) {
				// a start share that DECLARES a sequence of 1..6 shares, whatever really follows it in the list
				binary.BigEndian.PutUint32(raws[j][30:34], uint32(1+482*r.Intn(6)+r.Intn(400)))
			}
		}
		// queries: present, gaps (neighbours +-1), below, above
		var queries [][]byte
		queries = append(queries, nss...)
		for _, ns := range nss[:len(nss)-3] {
			for _, d := range []int{-1, 1} {
				if q, err := nsOf(ns).AddInt(d); err == nil {
					queries = append(queries, q.Bytes())
				}
			}
		}
		queries = append(queries, make([]byte, 29), share.ParitySharesNamespace.Bytes())
		// namespaces that differ from a present one ONLY in the version byte
		for _, ns := range nss[:1] {
			v := append([]byte{}, ns...)
			v[0] ^= 0x01
			queries = append(queries, v)
		}
		if long {
			// every namespace present once, and three absent ones
			var qs [][]byte
			for j, ns := range list {
				if j == 0 || !bytes.Equal(ns, list[j-1]) {
					qs = append(qs, ns)
				}
			}
			queries = append(qs, queries[len(queries)-3:]...)
		}
		sharesHex := joinHexList(raws)
		if i%6 == 5 && n >= 3 {
			// the same shares in an order that is NOT sorted (the function only promises something for sorted
			// lists; model and code must still agree on what it returns)
			perm := append([][]byte{}, raws...)
			for k := len(perm) - 1; k > 0; k-- {
				j := r.Intn(k + 1)
				perm[k], perm[j] = perm[j], perm[k]
			}
			for _, q := range queries[:min(len(queries), 6)] {
				c.add("nsrange", hx(q), joinHexList(perm))
			}
			c.count("nsrange_unsorted_list")
		}
		for _, q := range queries {
			c.add("nsrange", hx(q), sharesHex)
			rg := share.GetShareRangeForNamespace(sharesOf(raws), nsOf(q))
			first, last := -1, -1
			for j, ns := range list {
				if bytes.Equal(ns, q) {
					if first < 0 {
						first = j
					}
					last = j
				}
			}
			ok := (first < 0 && rg.Start == 0 && rg.End == 0) || (first >= 0 && rg.Start == first && rg.End == last+1)
			c.check(ok, "GetShareRangeForNamespace", "not exactly the contiguous run carrying the namespace (or empty when absent)", map[string]any{"namespaces": showList(func(b []byte) string { return hx(b[26:]) }, list), "query": hx(q)})
			c.mark(fmt.Sprintf("%d %s", n, hx(q)))
		}
	}
	// Go side only: a blob transaction with MORE THAN 256 blobs (one in namespace B, the rest in namespace A) and
	// a later transaction with a blob in namespace A: the sequences of the square must come in namespace order
	// and, inside one namespace, in (transaction, blob index) order - also for blob indexes >= 256
	c.guard("ParseShares (many blobs)", map[string]any{"blobs": "260..330 in one transaction"}, func() {
		nss := blobNamespaces(r, 2)
		nsA, nsB := nss[0], nss[1]
		n0 := 260 + r.Intn(70)
		var b0 []genBlob
		b0 = append(b0, genBlob{ns: nsB, data: r.Bytes(1 + r.Intn(300))})
		for k := 0; k < n0; k++ {
			b0 = append(b0, genBlob{ns: nsA, data: append([]byte{byte(k), byte(k >> 8)}, r.Bytes(1+r.Intn(200))...)})
		}
		b1 := []genBlob{{ns: nsA, data: r.Bytes(1 + r.Intn(300))}, {ns: nsB, data: r.Bytes(1 + r.Intn(300))}}
		txs := [][]byte{blobTxWithInner(r.Bytes(40), b0), blobTxWithInner(r.Bytes(30), b1)}
		all := append(append([]genBlob{}, b0...), b1...)
		sort.SliceStable(all, func(x, y int) bool { return bytes.Compare(all[x].ns, all[y].ns) < 0 })
		wit := map[string]any{"blobs_in_first_tx": len(b0), "blobs_in_second_tx": len(b1)}
		sq, err := square.Construct(txs, 64, 64)
		if !c.check(err == nil, "Construct", "error", wit) {
			return
		}
		seqs, err := share.ParseShares(sq, true)
		if !c.check(err == nil, "ParseShares", "error on a constructed square", wit) {
			return
		}
		k := 0
		ok := true
		for _, sqn := range seqs {
			nsb := sqn.Namespace.Bytes()
			if bytes.Equal(nsb, txNs) || bytes.Equal(nsb, pfbNs) || bytes.Equal(nsb, tailNs) || (len(sqn.Shares) == 1 && sqn.Shares[0].IsPadding()) {
				continue
			}
			d, derr := sqn.RawData()
			if k >= len(all) || derr != nil || !bytes.Equal(nsb, all[k].ns) || !bytes.Equal(d, all[k].data) {
				ok = false
				wit["first_wrong_sequence"] = k
				break
			}
			k++
		}
		c.check(ok && k == len(all), "ParseShares", "blob sequences are not the blobs in namespace order and, inside a namespace, in (transaction, blob index) order", wit)
		c.count("more_than_256_blobs_in_one_tx")
		c.goOnly++
	})
	// sequence parsing on constructed squares
	for i := 0; i < 120*c.scale; i++ {
		s := randSquareCase(c, r, true, r.Bool(40))
		_, kept, err := keptCase(s)
		if err != nil {
			continue
		}
		wit := map[string]any{"case": s.shape()}
		sq, err := square.Construct(kept, s.max, s.thr)
		if !c.check(err == nil, "Construct", "error", wit) {
			continue
		}
		keptHex := joinHexList(kept)
		// namespace lookup on slices of the square that may begin inside a sequence
		if len(sq) <= 64 {
			all := copyShares(sq)
			for q := 0; q < 3; q++ {
				lo := r.Intn(len(all))
				hi := lo + 1 + r.Intn(len(all)-lo)
				qns := all[lo+r.Intn(hi-lo)][:29]
				c.add("nsrange", hx(qns), joinHexList(all[lo:hi]))
				rg := share.GetShareRangeForNamespace(sq[lo:hi], nsOf(qns))
				first, last := -1, -1
				for j := lo; j < hi; j++ {
					if bytes.Equal(all[j][:29], qns) {
						if first < 0 {
							first = j - lo
						}
						last = j - lo
					}
				}
				c.check(rg.Start == first && rg.End == last+1, "GetShareRangeForNamespace", "not exactly the contiguous run carrying the namespace on a slice of a square", map[string]any{"case": s.shape(), "lo": lo, "hi": hi, "query": hx(qns)})
			}
		}
		c.add("sqparseshares", "0", strconv.Itoa(s.max), strconv.Itoa(s.thr), keptHex)
		c.add("sqparseshares", "1", strconv.Itoa(s.max), strconv.Itoa(s.thr), keptHex)
		seqs, err := share.ParseShares(sq, false)
		if c.check(err == nil, "ParseShares", "error on a constructed square", wit) {
			pos := 0
			okTile := true
			for _, sqn := range seqs {
				for _, sh := range sqn.Shares {
					if pos >= len(sq) || !bytes.Equal(sh.ToBytes(), sq[pos].ToBytes()) || !bytes.Equal(sh.ToBytes()[:29], sqn.Namespace.Bytes()) {
						okTile = false
					}
					pos++
				}
				if share.VerifValidSequenceLen(sqn) != nil {
					okTile = false
				}
			}
			c.check(okTile && pos == len(sq), "ParseShares", "sequences do not tile the square (consecutive, single namespace, declared length)", wit)
		}
		seqs, err = share.ParseShares(sq, true)
		if c.check(err == nil, "ParseShares(ignorePadding)", "error on a constructed square", wit) {
			pl, perr := placements(sq, kept)
			sort.SliceStable(pl, func(a, b int) bool { return pl[a].index < pl[b].index })
			var normals [][]byte
			nBlobTx := 0
			for _, k := range kept {
				if _, isBlob, _ := tx.UnmarshalBlobTx(k); !isBlob {
					normals = append(normals, k)
				} else {
					nBlobTx++
				}
			}
			want := 0
			ok := perr == nil
			k := 0
			if len(normals) > 0 {
				want++
				if k < len(seqs) {
					d, err := seqs[k].RawData()
					var stream []byte
					for _, t := range normals {
						stream = append(stream, refDelimited(t)...)
					}
					ok = ok && err == nil && bytes.Equal(seqs[k].Namespace.Bytes(), txNs) && bytes.Equal(d, stream)
				}
				k++
			}
			if nBlobTx > 0 {
				want++
				if k < len(seqs) {
					ok = ok && bytes.Equal(seqs[k].Namespace.Bytes(), pfbNs)
				}
				k++
			}
			for _, p := range pl {
				want++
				if k < len(seqs) {
					d, err := seqs[k].RawData()
					ok = ok && err == nil && bytes.Equal(seqs[k].Namespace.Bytes(), p.g.ns) && bytes.Equal(d, p.g.data)
				}
				k++
			}
			c.check(ok && len(seqs) == want, "ParseShares(ignorePadding)", "not exactly the tx sequence, the PFB sequence and one sequence per blob in square order with payload = blob data", wit)
			if len(pl) > 0 {
				c.mark(s.shape())
			}
			// the same square as views of ONE flat buffer: parse, read every payload, then parse and read again -
			// the second pass must see the same square (a payload read that writes behind its first share would not)
			flat := make([]byte, 0, 512*len(sq)+700)
			for _, sh := range sq {
				flat = append(flat, sh.ToBytes()...)
			}
			views := make([][]byte, len(sq))
			for k := range sq {
				views[k] = flat[512*k : 512*(k+1)]
			}
			if fsq, err := share.FromBytes(views); err == nil {
				okFlat := true
				var firstPass []string
				for pass := 0; pass < 2 && okFlat; pass++ {
					fs, err := share.ParseShares(fsq, true)
					if err != nil {
						okFlat = false
						break
					}
					for k2, q := range fs {
						d, err := q.RawData()
						sig := fmt.Sprintf("%x:%d:%x", q.Namespace.Bytes(), len(q.Shares), md5.Sum(d))
						if err != nil {
							okFlat = false
						}
						if pass == 0 {
							firstPass = append(firstPass, sig)
						} else if k2 >= len(firstPass) || firstPass[k2] != sig {
							okFlat = false
						}
					}
				}
				for k := range sq {
					okFlat = okFlat && bytes.Equal(views[k], sq[k].ToBytes())
				}
				c.check(okFlat, "ParseShares/RawData on one flat buffer", "reading the sequence payloads changed the square or a second parse differs", wit)
			}
		}
	}
	helperCases(c)
}
