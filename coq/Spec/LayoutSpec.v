(* The data-square layout written from the rules (C07), with no builder, no
   counters, no share writers and no cursor kept in an object: closed-form share
   encoders (ShareSpec, CompactSpec), the closed-form share counts, a stable sort,
   one fold assigning the aligned start indexes, and concatenation.

     square = tx shares ++ pfb shares ++ reserved padding up to the first blob
              ++ blobs (stably sorted by namespace), each at the next index aligned
                 to its subtree width, gaps filled with padding of the preceding
                 blob's namespace and share version
              ++ tail padding up to side * side

   side = least power of two whose square covers the worst-case estimate: compact
   share count of the transactions + compact share count of the wrapped PFBs with
   placeholder index 16384 + for every blob its share count plus subtree width - 1.

   The runner evaluates this on every C07 case and compares it with the Go code. *)
From GS.Model Require Import Base Varint Namespace ShareFmt Blob Counter Arith Proto.
From GS.Spec Require Import ShareSpec CompactSpec.
Open Scope N_scope.

Record lblob := mk_lb { lb_blob : blob; lb_pfb : N; lb_j : N; lb_n : N; lb_index : N }.

(* share count of a blob: its data and signer bytes in shares of 478 then 482 bytes *)
Definition blob_share_count (b : blob) : N :=
  sparse_shares_needed (lenN (b_data b) + signer_len b).

Definition worst_wrapper (t : blob_tx) : bytes :=
  marshal_index_wrapper (btx_tx t) (repeat 16384 (length (btx_blobs t))).

Definition compact_count (txs : list bytes) : N := N.of_nat (cneeded (length (stream txs))).

Fixpoint sumN_map {A} (f : A -> N) (l : list A) : N :=
  match l with [] => 0 | x :: tl => f x + sumN_map f tl end.

Definition blob_reservation (thr : N) (b : blob) : N :=
  let n := blob_share_count b in n + subtree_width n thr - 1.

(* the worst-case estimate *)
Definition estimate (thr : N) (normals : list bytes) (btxs : list blob_tx) : N :=
  compact_count normals + compact_count (map worst_wrapper btxs)
  + sumN_map (fun t => sumN_map (blob_reservation thr) (btx_blobs t)) btxs.

(* all blobs with their (transaction, position) in input order *)
Fixpoint blobs_of_tx (pi j : N) (bs : list blob) : list lblob :=
  match bs with
  | [] => []
  | b :: tl => mk_lb b pi j (blob_share_count b) 0 :: blobs_of_tx pi (j + 1) tl
  end.
Fixpoint all_blobs (pi : N) (btxs : list blob_tx) : list lblob :=
  match btxs with
  | [] => []
  | t :: tl => blobs_of_tx pi 0 (btx_blobs t) ++ all_blobs (pi + 1) tl
  end.

(* stable sort by namespace (insertion from the right keeps equal keys in order) *)
Fixpoint lb_insert (e : lblob) (l : list lblob) : list lblob :=
  match l with
  | [] => [e]
  | x :: tl =>
    match bytes_cmp (b_ns (lb_blob e)) (b_ns (lb_blob x)) with
    | Gt => x :: lb_insert e tl
    | _ => e :: l
    end
  end.
Definition lb_sort (l : list lblob) : list lblob := fold_right lb_insert [] l.

(* least multiple of w at or after c *)
Definition align_up (c w : N) : N := (c + w - 1) / w * w.

(* assign start indexes in sorted order *)
Fixpoint assign (thr cursor : N) (l : list lblob) : list lblob :=
  match l with
  | [] => []
  | e :: tl =>
    let i := align_up cursor (subtree_width (lb_n e) thr) in
    mk_lb (lb_blob e) (lb_pfb e) (lb_j e) (lb_n e) i :: assign thr (i + lb_n e) tl
  end.

Definition index_of (placed : list lblob) (pi j : N) : N :=
  match find (fun e => (lb_pfb e =? pi) && (lb_j e =? j)) placed with
  | Some e => lb_index e
  | None => 0
  end.

Fixpoint indexes_of_tx (placed : list lblob) (pi j : N) (bs : list blob) : list N :=
  match bs with
  | [] => []
  | _ :: tl => index_of placed pi j :: indexes_of_tx placed pi (j + 1) tl
  end.
Fixpoint wrappers (placed : list lblob) (pi : N) (btxs : list blob_tx) : list bytes :=
  match btxs with
  | [] => []
  | t :: tl =>
    marshal_index_wrapper (btx_tx t) (indexes_of_tx placed pi 0 (btx_blobs t))
    :: wrappers placed (pi + 1) tl
  end.

(* the blob region appended to [acc] (whose length is the current square index):
   padding up to each blob's index, then the blob's shares *)
Fixpoint place (acc : list share) (pad_ns : namespace) (pad_ver : N) (l : list lblob) : list share :=
  match l with
  | [] => acc
  | e :: tl =>
    let gap := N.to_nat (lb_index e - lenN acc) in
    let b := lb_blob e in
    place (acc ++ repeat (padding_spec pad_ns pad_ver) gap ++ blob_spec b) (b_ns b) (b_ver b) tl
  end.

Definition layout (thr : N) (normals : list bytes) (btxs : list blob_tx) : list share :=
  match normals, btxs with
  | [], [] => [padding_spec tail_padding_ns 0]
  | _, _ =>
    let side := blob_min_square_size (estimate thr normals btxs) in
    let tx_shares := compact_spec_ix tx_ns 0 normals in
    let start := compact_count normals + compact_count (map worst_wrapper btxs) in
    let placed := assign thr start (lb_sort (all_blobs 0 btxs)) in
    let pfb_shares := compact_spec_ix pfb_ns 0 (wrappers placed 0 btxs) in
    let body := place (tx_shares ++ pfb_shares) primary_reserved_padding_ns 0 placed in
    body ++ repeat (padding_spec tail_padding_ns 0) (N.to_nat (side * side - lenN body))
  end.

(* ---- raw transaction lists: classification, greedy keep/refuse ---- *)
Inductive tx_class := CNormal (raw : bytes) | CBlob (raw : bytes) (t : blob_tx) | CBad.
Definition classify (raw : bytes) : tx_class :=
  match unmarshal_blob_tx raw with
  | UbtNot => CNormal raw
  | UbtOk t => CBlob raw t
  | UbtErr => CBad
  end.

(* Construct: ordinary transactions first, then blob transactions; everything must fit *)
Fixpoint split_ordered (seen_blob : bool) (raws : list bytes) (normals : list bytes) (btxs : list blob_tx)
  : option (list bytes * list blob_tx) :=
  match raws with
  | [] => Some (normals, btxs)
  | r :: tl =>
    match classify r with
    | CBad => None
    | CNormal _ => if seen_blob then None else split_ordered false tl (normals ++ [r]) btxs
    | CBlob _ t => split_ordered true tl normals (btxs ++ [t])
    end
  end.

Definition layout_construct (raws : list bytes) (max : Z) (thr : N) : outcome (list share) :=
  if negb ((0 <? max)%Z && is_pow2 max) then Err else
  match split_ordered false raws [] [] with
  | None => Err
  | Some (normals, btxs) =>
    let m := Z.to_N max in
    if estimate thr normals btxs <=? m * m then Ok (layout thr normals btxs) else Err
  end.

(* Build: keep or refuse each transaction by the estimate alone *)
Fixpoint keep (cap thr : N) (raws : list bytes) (normals : list bytes) (btxs : list blob_tx)
         (kept_n kept_b : list bytes) : option (list bytes * list blob_tx * list bytes) :=
  match raws with
  | [] => Some (normals, btxs, kept_n ++ kept_b)
  | r :: tl =>
    match classify r with
    | CBad => None
    | CNormal _ =>
      if estimate thr (normals ++ [r]) btxs <=? cap
      then keep cap thr tl (normals ++ [r]) btxs (kept_n ++ [r]) kept_b
      else keep cap thr tl normals btxs kept_n kept_b
    | CBlob _ t =>
      if estimate thr normals (btxs ++ [t]) <=? cap
      then keep cap thr tl normals (btxs ++ [t]) kept_n (kept_b ++ [r])
      else keep cap thr tl normals btxs kept_n kept_b
    end
  end.

Definition layout_build (raws : list bytes) (max : Z) (thr : N) : outcome (list share * list bytes) :=
  if negb ((0 <? max)%Z && is_pow2 max) then Err else
  let m := Z.to_N max in
  match keep (m * m) thr raws [] [] [] [] with
  | None => Err
  | Some (normals, btxs, kept) => Ok (layout thr normals btxs, kept)
  end.
