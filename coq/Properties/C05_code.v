(* C05 (code model) - Blob commitments computed in isolation match the square's row trees,
   for the squares the code model returns.  Statements only; proofs in
   Proofs/CommitmentE2EProofs.v.

   C05.v states the property for ANY square that holds a blob's shares at an aligned index
   with a subtree width at most the side.  Here those hypotheses are discharged for every
   square square.Construct / square.Build return ([construct] / [build] of Model/Builder.v),
   by composing the C07 refinement and C04_code (EndToEndProofs.construct_indexes: every
   blob of every kept blob transaction sits verbatim at the index the square's PFB shares
   record, a multiple of its subtree width), C03_code (power-of-two, namespace-ordered
   square of 512-byte shares) and ArithProofs (the subtree width is at most the least
   power-of-two side whose square holds the blob, hence at most the side of any
   power-of-two square holding it: C05_code_width_fits).

   Conditions H(raws, max, thr) as in C03_code / C04_code: threshold >= 1, maximum side
   <= 1024, acceptable blobs (c07_raws_ok).  [H] is ANY base hash (crypto/sha256 in Go,
   Model/Sha256.v in the runner); the "never fails" parts need 32-byte digests, which the
   Gallina sha256 has, so C05_code_construct_sha is unconditional.

   For sq = the square of raws, side its side, and every blob b (n shares, subtree width w,
   mountain-range chunks (o, m)) of every blob transaction, with i the index the square
   records for it (Square.WrappedPFBs + tx.UnmarshalIndexWrapper: recorded_index):
     (1) w <= side and i mod w = 0;
     (2) no chunk spans two rows: (i+o)/side = (i+o+m-1)/side, and the chunk is an aligned
         power-of-two range of its row;
     (3) the k-th root of GenerateSubtreeRoots(b) IS the inner node of the namespaced tree
         of row (i+o)/side over the leaves [(i+o) mod side, +m)   (row_node, which is
         literally the expression of C05_subtree_roots_in_square);
     (4) CreateCommitment(b) is the merkle root over exactly those inner nodes; the same
         list of nodes is found in any two constructed squares holding b
         (C05_code_independent), so the commitment does not depend on the position, the
         side or the neighbours.
   Every row of the square is a tree all of whose Pushes succeed (leaves in namespace
   order, from ns_ordered), so the inner nodes above are nodes of the row's actual tree. *)
From Coq Require Import List NArith ZArith Sorted.
From GS.Model Require Import Base Varint Namespace ShareFmt Blob Sparse Compact Counter Arith Proto Builder Square Sha256 Nmt.
From GS.Spec Require Import ShareSpec CompactSpec LayoutSpec.
From GS.Proofs Require Import NmtProofs SparseProofs ArithProofs RangeProofs LayoutShapeProofs
  RefinementProofs1 RefinementProofs3 EndToEndProofs CommitmentE2EProofs.
Import ListNotations.
Open Scope N_scope.

(* ---- the vocabulary, unfolded ---- *)

(* the inner node of the row tree that covers the m leaves at square index x: the row is
   row x / s of the row-major square, the range starts at column x mod s *)
Theorem C05_code_row_node_unfolded : forall (H : bytes -> bytes) (sq : list share) s x m,
  row_node H sq s x m =
  inner_node (hash_node_o H) (Ok (nmt_empty_root H))
             (nmt_leaf_hashes H (row_leaves (takeN s (dropN (x / s * s) sq)))) (x mod s) m.
Proof. exact (fun H sq s x m => eq_refl). Qed.
Print Assumptions C05_code_row_node_unfolded.

Theorem C05_code_vocabulary_unfolded : forall n thr (sq : list share) p j i,
  blob_chunks n thr = offsets 0 (mmr_sizes n (subtree_width n thr)) /\
  (recorded_index sq p j i <->
   exists ws w iw, wrapped_pfbs sq = Ok ws /\ nth_error ws p = Some w /\
                   unmarshal_index_wrapper w = Some iw /\ nth_error (iw_idx iw) j = Some i).
Proof. exact (fun n thr sq p j i => conj eq_refl (iff_refl _)). Qed.
Print Assumptions C05_code_vocabulary_unfolded.

(* what is said of one blob b at index i of a square sq of side s *)
Theorem C05_code_blob_in_rows_unfolded : forall (H : bytes -> bytes) thr (sq : list share) s i b,
  blob_in_rows H thr sq s i b <->
  (let n := blob_share_count b in
   let w := subtree_width n thr in
   let chunks := offsets 0 (mmr_sizes n w) in
   blob_ok b /\ sparse_write b = Ok (blob_spec b) /\ lenN (blob_spec b) = n /\
   takeN n (dropN i sq) = blob_spec b /\ i + n <= s * s /\
   w <= s /\ i mod w = 0 /\
   (forall o m, In (o, m) chunks ->
      pow2 m /\ m <= w /\ o + m <= n /\ (i + o) mod m = 0 /\
      (i + o) / s = (i + o + m - 1) / s /\ (i + o) mod s + m <= s /\ ((i + o) mod s) mod m = 0) /\
   (forall roots, subtree_roots H b thr = Ok roots ->
      length roots = length chunks /\
      forall k o m, nth_error chunks k = Some (o, m) ->
        exists root, nth_error roots k = Some root /\
          inner_node (hash_node_o H) (Ok (nmt_empty_root H))
                     (nmt_leaf_hashes H (row_leaves (takeN s (dropN ((i + o) / s * s) sq))))
                     ((i + o) mod s) m = Some (Ok root)) /\
   (forall mrf cm, create_commitment H mrf b thr = Ok cm ->
      exists nodes, cm = mrf nodes /\ length nodes = length chunks /\
        forall k o m, nth_error chunks k = Some (o, m) ->
          exists node, nth_error nodes k = Some node /\
            inner_node (hash_node_o H) (Ok (nmt_empty_root H))
                       (nmt_leaf_hashes H (row_leaves (takeN s (dropN ((i + o) / s * s) sq))))
                       ((i + o) mod s) m = Some (Ok node)) /\
   ((forall x, length (H x) = 32%nat) ->
      exists roots, subtree_roots H b thr = Ok roots /\
        forall mrf, create_commitment H mrf b thr = Ok (mrf roots))).
Proof. exact (fun H thr sq s i b => iff_refl _). Qed.
Print Assumptions C05_code_blob_in_rows_unfolded.

(* ---- the main theorem: square.Construct ---- *)
Theorem C05_code_construct : forall (H : bytes -> bytes) raws max thr sq,
  1 <= thr -> (max <= 1024)%Z -> c07_raws_ok raws ->
  construct raws max thr = Ok sq ->
  exists side normals btxs,
    pow2 side /\ side <= Z.to_N max /\ lenN sq = side * side /\
    Forall (fun s => length s = 512%nat) sq /\ ns_ordered sq /\
    split_ordered false raws [] [] = Some (normals, btxs) /\
    (forall r, r < side -> nmt_push_ok (row_leaves (takeN side (dropN (r * side) sq))) = true) /\
    forall p t j b, nth_error btxs p = Some t -> nth_error (btx_blobs t) j = Some b ->
      exists i, recorded_index sq p j i /\ blob_in_rows H thr sq side i b.
Proof. exact construct_commitments. Qed.
Print Assumptions C05_code_construct.

(* square.Build: the blob transactions are those of the kept list *)
Theorem C05_code_build : forall (H : bytes -> bytes) raws max thr sq kept,
  1 <= thr -> (max <= 1024)%Z -> c07_raws_ok raws ->
  build raws max thr = Ok (sq, kept) ->
  exists side normals btxs,
    pow2 side /\ side <= Z.to_N max /\ lenN sq = side * side /\
    Forall (fun s => length s = 512%nat) sq /\ ns_ordered sq /\
    split_ordered false kept [] [] = Some (normals, btxs) /\
    (forall r, r < side -> nmt_push_ok (row_leaves (takeN side (dropN (r * side) sq))) = true) /\
    forall p t j b, nth_error btxs p = Some t -> nth_error (btx_blobs t) j = Some b ->
      exists i, recorded_index sq p j i /\ blob_in_rows H thr sq side i b.
Proof. exact build_commitments. Qed.
Print Assumptions C05_code_build.

(* "Consequently": the same blob in two constructed squares (other transactions, other
   maximum side; hence another index, side, neighbours) - the commitment is the merkle
   root over one list of nodes that are row inner nodes of BOTH squares *)
Theorem C05_code_independent : forall (H : bytes -> bytes) mrf thr raws1 max1 sq1 raws2 max2 sq2,
  1 <= thr -> (max1 <= 1024)%Z -> (max2 <= 1024)%Z -> c07_raws_ok raws1 -> c07_raws_ok raws2 ->
  construct raws1 max1 thr = Ok sq1 -> construct raws2 max2 thr = Ok sq2 ->
  exists side1 normals1 btxs1 side2 normals2 btxs2,
    lenN sq1 = side1 * side1 /\ lenN sq2 = side2 * side2 /\
    split_ordered false raws1 [] [] = Some (normals1, btxs1) /\
    split_ordered false raws2 [] [] = Some (normals2, btxs2) /\
    forall b p1 t1 j1 p2 t2 j2,
      nth_error btxs1 p1 = Some t1 -> nth_error (btx_blobs t1) j1 = Some b ->
      nth_error btxs2 p2 = Some t2 -> nth_error (btx_blobs t2) j2 = Some b ->
      exists i1 i2, recorded_index sq1 p1 j1 i1 /\ recorded_index sq2 p2 j2 i2 /\
        forall cm, create_commitment H mrf b thr = Ok cm ->
        exists nodes, cm = mrf nodes /\ length nodes = length (blob_chunks (blob_share_count b) thr) /\
          forall k o m, nth_error (blob_chunks (blob_share_count b) thr) k = Some (o, m) ->
            exists node, nth_error nodes k = Some node /\
              row_node H sq1 side1 (i1 + o) m = Some (Ok node) /\
              row_node H sq2 side2 (i2 + o) m = Some (Ok node).
Proof. exact construct_commitment_independent. Qed.
Print Assumptions C05_code_independent.

(* the same, for any two placements (also two positions inside one square) *)
Theorem C05_code_blob_independent : forall (H : bytes -> bytes) thr b sq1 s1 i1 sq2 s2 i2,
  blob_in_rows H thr sq1 s1 i1 b -> blob_in_rows H thr sq2 s2 i2 b ->
  forall mrf cm, create_commitment H mrf b thr = Ok cm ->
  exists nodes, cm = mrf nodes /\ length nodes = length (blob_chunks (blob_share_count b) thr) /\
    forall k o m, nth_error (blob_chunks (blob_share_count b) thr) k = Some (o, m) ->
      exists node, nth_error nodes k = Some node /\
        row_node H sq1 s1 (i1 + o) m = Some (Ok node) /\
        row_node H sq2 s2 (i2 + o) m = Some (Ok node).
Proof. exact blob_in_rows_independent. Qed.
Print Assumptions C05_code_blob_independent.

(* the instance run against the Go code (subtree_roots_sha / commitment_sha with the Gallina
   SHA-256): nothing is conditional - the row trees have roots, GenerateSubtreeRoots and
   CreateCommitment succeed, and their values are the row inner nodes / the root over them *)
Theorem C05_code_construct_sha : forall raws max thr sq,
  1 <= thr -> (max <= 1024)%Z -> c07_raws_ok raws ->
  construct raws max thr = Ok sq ->
  exists side normals btxs,
    pow2 side /\ lenN sq = side * side /\
    split_ordered false raws [] [] = Some (normals, btxs) /\
    (forall r, r < side ->
       exists v, nmt_root sha256 (row_leaves (takeN side (dropN (r * side) sq))) = Ok v /\ length v = 90%nat) /\
    forall p t j b, nth_error btxs p = Some t -> nth_error (btx_blobs t) j = Some b ->
      exists i roots, recorded_index sq p j i /\
        subtree_roots_sha b thr = Ok roots /\
        commitment_sha b thr = Ok (merkle_root sha256 roots) /\
        let n := blob_share_count b in
        subtree_width n thr <= side /\ i mod subtree_width n thr = 0 /\
        length roots = length (blob_chunks n thr) /\
        forall k o m, nth_error (blob_chunks n thr) k = Some (o, m) ->
          (i + o) / side = (i + o + m - 1) / side /\
          exists root, nth_error roots k = Some root /\ row_node sha256 sq side (i + o) m = Some (Ok root).
Proof. exact construct_commitments_sha. Qed.
Print Assumptions C05_code_construct_sha.

(* ---- the bridging facts ---- *)

(* the subtree width of n shares fits the side of ANY power-of-two square with room for n *)
Theorem C05_code_width_fits : forall n thr side, 1 <= thr -> pow2 side -> n <= side * side ->
  subtree_width n thr <= side.
Proof. exact width_le_side. Qed.
Print Assumptions C05_code_width_fits.

(* hence everything above holds of any power-of-two square holding the blob's shares at a
   multiple of its subtree width (nothing assumed on the width) *)
Theorem C05_code_any_square : forall (H : bytes -> bytes) thr (sq : list share) side i b,
  1 <= thr -> blob_ok b -> pow2 side -> lenN sq = side * side ->
  firstn (N.to_nat (blob_share_count b)) (skipn (N.to_nat i) sq) = blob_spec b ->
  i + blob_share_count b <= lenN sq ->
  i mod subtree_width (blob_share_count b) thr = 0 ->
  blob_in_rows H thr sq side i b.
Proof. exact blob_in_rows_intro. Qed.
Print Assumptions C05_code_any_square.

(* the rows of a namespace-ordered square of 512-byte shares: side leaves, every Push
   succeeds; with 32-byte digests the row tree has a (90-byte) root *)
Theorem C05_code_rows_push_ok : forall (sq : list share) side, 0 < side -> lenN sq = side * side ->
  Forall (fun s => length s = 512%nat) sq -> ns_ordered sq ->
  forall r, r < side ->
    let row := takeN side (dropN (r * side) sq) in
    lenN row = side /\ nmt_push_ok (row_leaves row) = true /\
    forall H : bytes -> bytes, (forall x, length (H x) = 32%nat) ->
      exists v, nmt_root H (row_leaves row) = Ok v /\ length v = 90%nat.
Proof. exact rows_push_ok. Qed.
Print Assumptions C05_code_rows_push_ok.

Theorem C05_code_sha256_length : forall x, length (sha256 x) = 32%nat.
Proof. exact sha256_length. Qed.
Print Assumptions C05_code_sha256_length.

(* ---- non-vacuity ---- *)
(* ex_raws (C07.v), maximum 4, threshold 1; and two other inputs holding the same blobs:
   [ex_raw2] alone (maximum 4) and [ex_raw1] alone (maximum 2).  The hypotheses hold. *)
Example C05_code_example_hyps :
  1 <= 1 /\ (4 <= 1024)%Z /\ (2 <= 1024)%Z /\
  c07_raws_ok ex_raws /\ c07_raws_ok [ex_raw2] /\ c07_raws_ok [ex_raw1] /\
  is_ok (construct ex_raws 4 1) = true /\ is_ok (construct [ex_raw2] 4 1) = true /\
  is_ok (construct [ex_raw1] 2 1) = true.
Proof.
  destruct e2e_ex_hyps as (H1 & H2 & H3 & H4 & _).
  assert (Hsub : forall r, In r [ex_raw1; ex_raw2] -> c07_raws_ok [r]).
  { intros r Hr. constructor; [|constructor]. unfold c07_raws_ok in H3. rewrite Forall_forall in H3.
    apply H3. unfold ex_raws. apply in_or_app. right. exact Hr. }
  split; [exact H1|]. split; [exact H2|]. split; [discriminate|]. split; [exact H3|].
  split; [apply Hsub; right; left; reflexivity|]. split; [apply Hsub; left; reflexivity|].
  split; [exact H4|]. split; vm_compute; reflexivity.
Qed.

(* by the theorem *)
Example C05_code_example_by_theorem :
  exists sq side, construct ex_raws 4 1 = Ok sq /\ lenN sq = side * side /\
    forall p t j b, nth_error [ex_btx1; ex_btx2] p = Some t -> nth_error (btx_blobs t) j = Some b ->
      exists i, recorded_index sq p j i /\ blob_in_rows sha256 1 sq side i b.
Proof.
  destruct C05_code_example_hyps as (H1 & H2 & _ & H3 & _ & _ & H4 & _).
  destruct (construct ex_raws 4 1) as [sq| |] eqn:E; [|discriminate H4|discriminate H4].
  destruct (C05_code_construct sha256 ex_raws 4 1 sq H1 H2 H3 E)
    as (side & normals & btxs & _ & _ & Hlen & _ & _ & Hs & _ & Hall).
  rewrite e2e_ex_split in Hs. injection Hs as <- <-.
  exists sq, side. split; [reflexivity|]. split; [exact Hlen|exact Hall].
Qed.

(* by evaluation of the models with the real SHA-256.  Square 1 = Construct(ex_raws, 4):
   blob a (2 shares, one chunk of 2) at 2 and again at 4, blob b (5 shares, width 4,
   chunks 4 + 1) at 8.  Square 2 = Construct([ex_raw2], 4): a at 2, b at 4.  Square 3 =
   Construct([ex_raw1], 2), side 2: a at 2.  The subtree roots computed from the blobs
   alone are the row inner nodes at all these places, the commitments are the merkle
   roots over them, every row tree of square 1 has a root. *)
Example C05_code_example_computed :
  match construct ex_raws 4 1, construct [ex_raw2] 4 1, construct [ex_raw1] 2 1 with
  | Ok sq1, Ok sq2, Ok sq3 =>
    match subtree_roots_sha ex_blob_b 1, subtree_roots_sha ex_blob_a 1 with
    | Ok [b0; b1], Ok [a0] =>
      (length sq1, length sq2, length sq3) = (16, 16, 4)%nat /\
      match wrapped_pfbs sq1, wrapped_pfbs sq2, wrapped_pfbs sq3 with
      | Ok ws1, Ok ws2, Ok ws3 =>
        map (fun w => option_map iw_idx (unmarshal_index_wrapper w)) ws1 = [Some [2]; Some [8; 4]] /\
        map (fun w => option_map iw_idx (unmarshal_index_wrapper w)) ws2 = [Some [4; 2]] /\
        map (fun w => option_map iw_idx (unmarshal_index_wrapper w)) ws3 = [Some [2]]
      | _, _, _ => False
      end /\
      blob_chunks (blob_share_count ex_blob_b) 1 = [(0, 4); (4, 1)] /\
      blob_chunks (blob_share_count ex_blob_a) 1 = [(0, 2)] /\
      row_node sha256 sq1 4 8 4 = Some (Ok b0) /\ row_node sha256 sq1 4 12 1 = Some (Ok b1) /\
      row_node sha256 sq2 4 4 4 = Some (Ok b0) /\ row_node sha256 sq2 4 8 1 = Some (Ok b1) /\
      row_node sha256 sq1 4 2 2 = Some (Ok a0) /\ row_node sha256 sq1 4 4 2 = Some (Ok a0) /\
      row_node sha256 sq2 4 2 2 = Some (Ok a0) /\ row_node sha256 sq3 2 2 2 = Some (Ok a0) /\
      commitment_sha ex_blob_b 1 = Ok (merkle_root sha256 [b0; b1]) /\
      commitment_sha ex_blob_a 1 = Ok (merkle_root sha256 [a0]) /\
      map (fun r => is_ok (nmt_root sha256 (row_leaves (takeN 4 (dropN (r * 4) sq1))))) [0; 1; 2; 3]
        = [true; true; true; true] /\
      (* a range that is not aligned is not an inner node *)
      row_node sha256 sq1 4 9 2 = None
    | _, _ => False
    end
  | _, _, _ => False
  end.
Proof. vm_compute. repeat split; reflexivity. Qed.
