(* C20 at code level: the share-range helpers of share/range.go as printed into the REGENERATED
   GoLite program (Gen/Generated.v, from the Go source on every run) compute what the hand-written
   model computes (Helpers.range_is_empty, Helpers.range_add).  Statements only; proofs in
   GenMoreBase GenMoreC20.v.

   A Range is its two ints [Start; End]; Add has a pointer receiver, so its (empty) result list is
   followed by the two fields after the call. *)
From Coq Require Import List ZArith String.
From GS.Model Require Import Base Helpers GoLite.
From GS.Gen Require Import Generated.
From GS.GenProofs Require Import GenLink GenMoreBase GenMoreC20.
Open Scope string_scope. Open Scope Z_scope.

(* the model's Go-int wrap-around is literally GoLite's wrap at int64 *)
Theorem gen_int_wrap_is_wrap : forall z, int_wrap z = wrap I64 z.
Proof. exact int_wrap_is_wrap. Qed.
Print Assumptions gen_int_wrap_is_wrap.

(* (r Range) IsEmpty() bool: unconditional *)
Theorem gen_range_is_empty : forall fuel s e, (1 <= fuel)%nat ->
  gen_call fuel "share.Range.IsEmpty" I64 [s; e] = Val [b2z (range_is_empty (s, e))].
Proof. exact range_is_empty_gen. Qed.
Print Assumptions gen_range_is_empty.

(* (r *Range) Add(value int): every int64 triple (indeed all integers) - no no-overflow condition,
   both sides wrap around in the same way *)
Theorem gen_range_add : forall fuel s e v, (1 <= fuel)%nat ->
  gen_call fuel "share.Range.Add" I64 [s; e; v] =
  Val [fst (range_add (s, e) v); snd (range_add (s, e) v)].
Proof. exact range_add_gen. Qed.
Print Assumptions gen_range_add.

(* the new fields are int64 values again *)
Theorem gen_range_add_in_i64 : forall s e v,
  in_i64 (fst (range_add (s, e) v)) /\ in_i64 (snd (range_add (s, e) v)).
Proof. exact range_add_in_i64. Qed.
Print Assumptions gen_range_add_in_i64.

Example gen_range_ex :
  gen_call 1 "share.Range.IsEmpty" I64 [0; 0] = Val [1] /\
  gen_call 1 "share.Range.IsEmpty" I64 [0; 5] = Val [0] /\
  gen_call 1 "share.Range.IsEmpty" I64 [3; 0] = Val [0] /\
  gen_call 1 "share.Range.Add" I64 [3; 8; 10] = Val [13; 18] /\
  range_add (3, 8) 10 = (13, 18) /\
  gen_call 1 "share.Range.Add" I64 [3; 2^63 - 1; 1] = Val [4; - 2^63] /\
  range_add (3, 2^63 - 1) 1 = (4, - 2^63) /\
  gen_call 1 "share.Range.Add" I64 [- 2^63; 0; -1] = Val [2^63 - 1; -1].
Proof. vm_compute. repeat split; reflexivity. Qed.
