// go2coq: prints the bodies of selected integer functions of go-square as values of the
// GoLite deep embedding (coq/Model/GoLite.v).  Standard library only (go/ast, go/types with the
// source importer).  Run with the repository as working directory:
//
//	cd <repo> && go run /verif/go2coq <out.v>
//
// The translation is purely syntactic plus the types and constant values that go/types
// computed: every arithmetic node is tagged with its Go type, constants are folded by the type
// checker (so FirstCompactShareContentSize is printed as 474 only if the source says so).
// Anything outside the supported fragment makes the function "unsupported": it is not
// emitted, and the theorems about it no longer compile.
package main

import (
	"fmt"
	"go/ast"
	"go/constant"
	"go/importer"
	"go/parser"
	"go/token"
	"go/types"
	"os"
	"path/filepath"
	"sort"
	"strings"
)

// the functions whose model is regenerated on every run: package directory -> names
// (methods as Recv.Method)
var selected = []struct {
	dir   string
	names []string
}{
	{"inclusion", []string{"RoundUpByMultipleOf", "RoundUpPowerOfTwo", "RoundDownPowerOfTwo", "SubTreeWidth", "getMin", "NextShareIndex"}},
	{"share", []string{"CompactSharesNeeded", "SparseSharesNeeded", "AvailableBytesFromCompactShares", "AvailableBytesFromSparseShares",
		"CompactShareCounter.Add", "CompactShareCounter.Revert", "CompactShareCounter.Size", "CompactShareCounter.Remainder",
		"NewInfoByte", "ParseInfoByte", "InfoByte.Version", "InfoByte.IsSequenceStart", "rawTxSize", "Range.Add", "Range.IsEmpty"}},
	{".", []string{"IsPowerOfTwo", "RoundUpPowerOfTwo", "Builder.canFit", "Builder.CurrentSize", "Builder.SubtreeRootThreshold", "Element.maxShareOffset"}},
}

type unsupported struct{ msg string }

func fail(format string, a ...any) { panic(unsupported{fmt.Sprintf(format, a...)}) }

type tr struct {
	fset  *token.FileSet
	info  *types.Info
	pkg   *types.Package
	recv  *types.Var      // receiver of the method being translated (nil for functions)
	rflds map[string]bool // the receiver's modelled (integer) fields
	names map[types.Object]string
	used  map[string]int
}

func ityOf(t types.Type) string {
	if _, ok := t.(*types.TypeParam); ok {
		return "IParam"
	}
	switch u := t.Underlying().(type) {
	case *types.Basic:
		switch u.Kind() {
		case types.Int, types.Int64, types.UntypedInt:
			return "I64"
		case types.Uint64, types.Uint, types.Uintptr:
			return "U64"
		case types.Uint32:
			return "U32"
		case types.Uint8:
			return "U8"
		case types.Bool, types.UntypedBool:
			return "IBool"
		}
	case *types.Interface:
		if t.String() == "error" {
			return "IErr"
		}
	}
	fail("type %s is outside the fragment", t.String())
	return ""
}

func isIntLike(t types.Type) (ok bool) {
	defer func() {
		if r := recover(); r != nil {
			if _, is := r.(unsupported); is {
				ok = false
				return
			}
			panic(r)
		}
	}()
	k := ityOf(t)
	return k != "IErr"
}

func zlit(s string) string {
	if strings.HasPrefix(s, "-") {
		return "(" + s + ")"
	}
	return s
}

// localOnly refuses package-level variables (their value is not part of the function's arguments) and
// the blank identifier as a value
func (t *tr) localOnly(v *types.Var) {
	if v.Name() == "_" {
		fail("the blank identifier used as a variable")
	}
	if v.IsField() {
		fail("field %s outside a receiver selector", v.Name())
	}
	if v.Pkg() != nil && v.Parent() == v.Pkg().Scope() {
		fail("package-level variable %s", v.Name())
	}
}

func (t *tr) nameOf(obj types.Object) string {
	if obj == nil {
		fail("unresolved identifier")
	}
	if n, ok := t.names[obj]; ok {
		return n
	}
	base := obj.Name()
	t.used[base]++
	n := base
	if t.used[base] > 1 {
		n = fmt.Sprintf("%s#%d", base, t.used[base])
	}
	t.names[obj] = n
	return n
}

func q(s string) string { return "\"" + s + "\"" }

func funcKey(f *types.Func) string {
	sig := f.Type().(*types.Signature)
	pkg := ""
	if f.Pkg() != nil {
		pkg = f.Pkg().Name()
	}
	if r := sig.Recv(); r != nil {
		rt := r.Type()
		if p, ok := rt.(*types.Pointer); ok {
			rt = p.Elem()
		}
		if n, ok := rt.(*types.Named); ok {
			return pkg + "." + n.Obj().Name() + "." + f.Name()
		}
	}
	return pkg + "." + f.Name()
}

func (t *tr) expr(e ast.Expr) string {
	if tv, ok := t.info.Types[e]; ok && tv.Value != nil {
		switch tv.Value.Kind() {
		case constant.Int:
			return "(EConst " + zlit(tv.Value.ExactString()) + ")"
		case constant.Bool:
			if constant.BoolVal(tv.Value) {
				return "(EConst 1)"
			}
			return "(EConst 0)"
		default:
			fail("constant %s of kind %v", tv.Value.String(), tv.Value.Kind())
		}
	}
	switch x := e.(type) {
	case *ast.ParenExpr:
		return t.expr(x.X)
	case *ast.Ident:
		obj := t.info.Uses[x]
		if obj == nil {
			obj = t.info.Defs[x]
		}
		if _, isNil := obj.(*types.Nil); isNil {
			return "(EConst 0)"
		}
		v, ok := obj.(*types.Var)
		if !ok {
			fail("identifier %s is not a variable", x.Name)
		}
		t.localOnly(v)
		ityOf(obj.Type())
		return "(EVar " + q(t.nameOf(obj)) + ")"
	case *ast.SelectorExpr:
		if id, ok := x.X.(*ast.Ident); ok && t.recv != nil && t.info.Uses[id] == t.recv {
			if !t.rflds[x.Sel.Name] {
				fail("receiver field %s is not one of the modelled integer fields", x.Sel.Name)
			}
			ityOf(t.info.TypeOf(e))
			return "(EVar " + q(id.Name+"."+x.Sel.Name) + ")"
		}
		fail("selector %s", types.ExprString(e))
	case *ast.UnaryExpr:
		switch x.Op {
		case token.NOT:
			return "(ENot " + t.expr(x.X) + ")"
		case token.SUB:
			return "(EBin " + ityOf(t.info.TypeOf(e)) + " OSub (EConst 0) " + t.expr(x.X) + ")"
		case token.ADD:
			return t.expr(x.X)
		}
		fail("unary operator %s", x.Op)
	case *ast.BinaryExpr:
		a, b := t.expr(x.X), t.expr(x.Y)
		switch x.Op {
		case token.LAND:
			return "(EAndAlso " + a + " " + b + ")"
		case token.LOR:
			return "(EOrElse " + a + " " + b + ")"
		case token.LSS, token.LEQ, token.GTR, token.GEQ, token.EQL, token.NEQ:
			if ityOf(t.info.TypeOf(x.X)) == "IErr" || ityOf(t.info.TypeOf(x.Y)) == "IErr" {
				// an error value is modelled as nil / non-nil only: comparing two errors is outside the fragment
				if !t.info.Types[x.X].IsNil() && !t.info.Types[x.Y].IsNil() {
					fail("comparison of two error values")
				}
			}
			op := map[token.Token]string{token.LSS: "CLt", token.LEQ: "CLe", token.GTR: "CGt", token.GEQ: "CGe", token.EQL: "CEq", token.NEQ: "CNe"}[x.Op]
			return "(ECmp " + op + " " + a + " " + b + ")"
		}
		op, ok := map[token.Token]string{token.ADD: "OAdd", token.SUB: "OSub", token.MUL: "OMul", token.QUO: "OQuo", token.REM: "ORem",
			token.SHL: "OShl", token.SHR: "OShr", token.AND: "OAnd", token.OR: "OOr", token.XOR: "OXor"}[x.Op]
		if !ok {
			fail("binary operator %s", x.Op)
		}
		ty := ityOf(t.info.TypeOf(e))
		if ty == "IBool" || ty == "IErr" {
			fail("arithmetic at type %s", ty)
		}
		return "(EBin " + ty + " " + op + " " + a + " " + b + ")"
	case *ast.CallExpr:
		if tv, ok := t.info.Types[x.Fun]; ok && tv.IsType() {
			if len(x.Args) != 1 {
				fail("conversion with %d arguments", len(x.Args))
			}
			from := ityOf(t.info.TypeOf(x.Args[0]))
			to := ityOf(tv.Type)
			if from == "IBool" || from == "IErr" || to == "IBool" || to == "IErr" {
				fail("conversion %s -> %s", from, to)
			}
			return "(EConv " + to + " " + t.expr(x.Args[0]) + ")"
		}
		f, targ, args := t.call(x)
		if f == "fmt.Errorf" || f == "errors.New" {
			return "(EConst 1)"
		}
		sig := t.info.TypeOf(x.Fun).(*types.Signature)
		if sig.Results().Len() != 1 {
			fail("call of %s with %d results inside an expression", f, sig.Results().Len())
		}
		return "(ECall " + q(f) + " " + targ + " " + args + ")"
	}
	fail("expression %s", types.ExprString(e))
	return ""
}

// call returns the callee's key, the type argument and the printed argument list
func (t *tr) call(x *ast.CallExpr) (string, string, string) {
	var id *ast.Ident
	switch f := x.Fun.(type) {
	case *ast.Ident:
		id = f
	case *ast.SelectorExpr:
		id = f.Sel
		if rid, ok := f.X.(*ast.Ident); ok && t.recv != nil && t.info.Uses[rid] == t.recv {
			fail("method call on the receiver")
		}
	case *ast.IndexExpr:
		if i, ok := f.X.(*ast.Ident); ok {
			id = i
		}
	}
	if id == nil {
		fail("callee %s", types.ExprString(x.Fun))
	}
	fn, ok := t.info.Uses[id].(*types.Func)
	if !ok {
		fail("callee %s is not a function", id.Name)
	}
	if fn.Type().(*types.Signature).Recv() != nil {
		fail("method call %s", types.ExprString(x.Fun))
	}
	key := funcKey(fn)
	if key == "fmt.Errorf" || key == "errors.New" {
		for _, a := range x.Args {
			if tv, ok := t.info.Types[a]; ok && tv.Value != nil {
				continue
			}
			if id, ok := a.(*ast.Ident); ok {
				if v, ok := t.info.Uses[id].(*types.Var); ok {
					t.localOnly(v)
					continue
				}
			}
			fail("argument %s of %s could have an effect", types.ExprString(a), key)
		}
		return key, "I64", "[]"
	}
	targ := "I64"
	if inst, ok := t.info.Instances[id]; ok && inst.TypeArgs != nil && inst.TypeArgs.Len() > 0 {
		if inst.TypeArgs.Len() != 1 {
			fail("%d type arguments", inst.TypeArgs.Len())
		}
		targ = ityOf(inst.TypeArgs.At(0))
	}
	if x.Ellipsis.IsValid() {
		fail("variadic call")
	}
	var as []string
	for _, a := range x.Args {
		ityOf(t.info.TypeOf(a))
		as = append(as, t.expr(a))
	}
	return key, targ, "[" + strings.Join(as, "; ") + "]"
}

func seq(ss []string) string {
	if len(ss) == 0 {
		return "SSkip"
	}
	if len(ss) == 1 {
		return ss[0]
	}
	return "(SSeq " + ss[0] + "\n   " + seq(ss[1:]) + ")"
}

func (t *tr) lhs(e ast.Expr) string {
	switch x := e.(type) {
	case *ast.Ident:
		if x.Name == "_" {
			return "_"
		}
		obj := t.info.Defs[x]
		if obj == nil {
			obj = t.info.Uses[x]
		}
		v, ok := obj.(*types.Var)
		if !ok {
			fail("assignment to %s", x.Name)
		}
		t.localOnly(v)
		ityOf(obj.Type())
		return t.nameOf(obj)
	case *ast.SelectorExpr:
		if id, ok := x.X.(*ast.Ident); ok && t.recv != nil && t.info.Uses[id] == t.recv {
			if !t.rflds[x.Sel.Name] {
				fail("receiver field %s is not one of the modelled integer fields", x.Sel.Name)
			}
			ityOf(t.info.TypeOf(e))
			return id.Name + "." + x.Sel.Name
		}
	}
	fail("assignment target %s", types.ExprString(e))
	return ""
}

func (t *tr) block(b *ast.BlockStmt, results *types.Tuple) string {
	var ss []string
	for _, s := range b.List {
		ss = append(ss, t.stmt(s, results))
	}
	return seq(ss)
}

func (t *tr) stmt(s ast.Stmt, results *types.Tuple) string {
	switch x := s.(type) {
	case *ast.BlockStmt:
		return t.block(x, results)
	case *ast.EmptyStmt:
		return "SSkip"
	case *ast.DeclStmt:
		gd, ok := x.Decl.(*ast.GenDecl)
		if !ok || gd.Tok != token.VAR {
			fail("declaration")
		}
		var ss []string
		for _, sp := range gd.Specs {
			vs := sp.(*ast.ValueSpec)
			if len(vs.Values) != 0 && len(vs.Values) != len(vs.Names) {
				fail("var with a multi-value initialiser")
			}
			for i, n := range vs.Names {
				name := t.lhs(n)
				if len(vs.Values) == 0 {
					ss = append(ss, "(SAssign "+q(name)+" (EConst 0))")
				} else {
					ss = append(ss, "(SAssign "+q(name)+" "+t.expr(vs.Values[i])+")")
				}
			}
		}
		return seq(ss)
	case *ast.AssignStmt:
		if len(x.Rhs) == 1 && len(x.Lhs) > 1 {
			c, ok := x.Rhs[0].(*ast.CallExpr)
			if !ok || (x.Tok != token.DEFINE && x.Tok != token.ASSIGN) {
				fail("multi-value assignment")
			}
			f, targ, args := t.call(c)
			var names []string
			for _, l := range x.Lhs {
				names = append(names, q(t.lhs(l)))
			}
			return "(SCall [" + strings.Join(names, "; ") + "] " + q(f) + " " + targ + " " + args + ")"
		}
		if len(x.Lhs) != 1 || len(x.Rhs) != 1 {
			fail("parallel assignment")
		}
		// evaluate the right-hand side before naming the target: in `x := x + 1` of an inner scope the
		// right-hand x is the outer one
		var rhs string
		if x.Tok == token.DEFINE || x.Tok == token.ASSIGN {
			rhs = t.expr(x.Rhs[0])
			return "(SAssign " + q(t.lhs(x.Lhs[0])) + " " + rhs + ")"
		}
		op, ok := map[token.Token]string{token.ADD_ASSIGN: "OAdd", token.SUB_ASSIGN: "OSub", token.MUL_ASSIGN: "OMul", token.QUO_ASSIGN: "OQuo",
			token.REM_ASSIGN: "ORem", token.SHL_ASSIGN: "OShl", token.SHR_ASSIGN: "OShr", token.AND_ASSIGN: "OAnd", token.OR_ASSIGN: "OOr", token.XOR_ASSIGN: "OXor"}[x.Tok]
		if !ok {
			fail("assignment operator %s", x.Tok)
		}
		ty := ityOf(t.info.TypeOf(x.Lhs[0]))
		return "(SAssign " + q(t.lhs(x.Lhs[0])) + " (EBin " + ty + " " + op + " " + t.expr(x.Lhs[0]) + " " + t.expr(x.Rhs[0]) + "))"
	case *ast.IncDecStmt:
		op := "OAdd"
		if x.Tok == token.DEC {
			op = "OSub"
		}
		ty := ityOf(t.info.TypeOf(x.X))
		return "(SAssign " + q(t.lhs(x.X)) + " (EBin " + ty + " " + op + " " + t.expr(x.X) + " (EConst 1)))"
	case *ast.IfStmt:
		var pre []string
		if x.Init != nil {
			pre = append(pre, t.stmt(x.Init, results))
		}
		els := "SSkip"
		if x.Else != nil {
			els = t.stmt(x.Else, results)
		}
		return seq(append(pre, "(SIf "+t.expr(x.Cond)+"\n    "+t.block(x.Body, results)+"\n    "+els+")"))
	case *ast.ForStmt:
		noJumps(x.Body)
		var pre []string
		if x.Init != nil {
			pre = append(pre, t.stmt(x.Init, results))
		}
		cond := "(EConst 1)"
		if x.Cond != nil {
			cond = t.expr(x.Cond)
		}
		body := t.block(x.Body, results)
		if x.Post != nil {
			body = seq([]string{body, t.stmt(x.Post, results)})
		}
		return seq(append(pre, "(SFor "+cond+"\n    "+body+")"))
	case *ast.SwitchStmt:
		if x.Tag != nil {
			fail("switch with a tag")
		}
		var pre []string
		if x.Init != nil {
			pre = append(pre, t.stmt(x.Init, results))
		}
		noJumps(x.Body)
		// cases in source order, default last
		type cc struct{ cond, body string }
		var cases []cc
		def := "SSkip"
		for _, c := range x.Body.List {
			cl := c.(*ast.CaseClause)
			var bs []string
			for _, s := range cl.Body {
				bs = append(bs, t.stmt(s, results))
			}
			if cl.List == nil {
				def = seq(bs)
				continue
			}
			cond := t.expr(cl.List[0])
			for _, e := range cl.List[1:] {
				cond = "(EOrElse " + cond + " " + t.expr(e) + ")"
			}
			cases = append(cases, cc{cond, seq(bs)})
		}
		out := def
		for i := len(cases) - 1; i >= 0; i-- {
			out = "(SIf " + cases[i].cond + "\n    " + cases[i].body + "\n    " + out + ")"
		}
		return seq(append(pre, out))
	case *ast.ReturnStmt:
		if len(x.Results) == 0 {
			var es []string
			for i := 0; i < results.Len(); i++ {
				if results.At(i).Name() == "" {
					fail("bare return with unnamed results")
				}
				if results.At(i).Name() == "_" {
					es = append(es, "(EConst 0)") // a blank result is never assigned: its zero value
					continue
				}
				es = append(es, "(EVar "+q(t.nameOf(results.At(i)))+")")
			}
			return "(SReturn [" + strings.Join(es, "; ") + "])"
		}
		if len(x.Results) == 1 && results.Len() > 1 {
			// return f(args) forwarding all results of a call
			call, ok := x.Results[0].(*ast.CallExpr)
			if !ok {
				fail("return of a multi-value expression")
			}
			f, targ, args := t.call(call)
			if f == "fmt.Errorf" || f == "errors.New" {
				fail("return of a multi-value expression")
			}
			var tmps, evs []string
			for i := 0; i < results.Len(); i++ {
				ityOf(results.At(i).Type())
				tmps = append(tmps, q(fmt.Sprintf("ret#%d", i)))
				evs = append(evs, "(EVar "+q(fmt.Sprintf("ret#%d", i))+")")
			}
			return "(SSeq (SCall [" + strings.Join(tmps, "; ") + "] " + q(f) + " " + targ + " " + args + ")\n   (SReturn [" + strings.Join(evs, "; ") + "]))"
		}
		if len(x.Results) != results.Len() {
			fail("return of a multi-value call")
		}
		var es []string
		for i, r := range x.Results {
			ityOf(results.At(i).Type())
			es = append(es, t.expr(r))
		}
		return "(SReturn [" + strings.Join(es, "; ") + "])"
	}
	fail("statement %T", s)
	return ""
}

func noJumps(b *ast.BlockStmt) {
	ast.Inspect(b, func(n ast.Node) bool {
		if br, ok := n.(*ast.BranchStmt); ok {
			fail("%s statement", br.Tok)
		}
		return true
	})
}

type emitted struct {
	key, ident, body, pos string
}

func translate(fset *token.FileSet, info *types.Info, pkg *types.Package, fd *ast.FuncDecl, relfile string) (out emitted, err error) {
	defer func() {
		if r := recover(); r != nil {
			if u, ok := r.(unsupported); ok {
				err = fmt.Errorf("%s", u.msg)
				return
			}
			panic(r)
		}
	}()
	fn := info.Defs[fd.Name].(*types.Func)
	sig := fn.Type().(*types.Signature)
	t := &tr{fset: fset, info: info, pkg: pkg, names: map[types.Object]string{}, used: map[string]int{}}
	var params, outs []string
	if r := sig.Recv(); r != nil {
		rt := r.Type()
		ptr := false
		if p, ok := rt.(*types.Pointer); ok {
			rt = p.Elem()
			ptr = true
		}
		switch st := rt.Underlying().(type) {
		case *types.Struct:
			// the receiver's INTEGER fields become in (and, for a pointer receiver, out) variables named
			// "recv.field"; a body that touches any other field is refused where it does so
			t.recv = r
			t.rflds = map[string]bool{}
			for i := 0; i < st.NumFields(); i++ {
				if !isIntLike(st.Field(i).Type()) || st.Field(i).Embedded() {
					continue
				}
				t.rflds[st.Field(i).Name()] = true
				params = append(params, q(r.Name()+"."+st.Field(i).Name()))
				if ptr {
					outs = append(outs, q(r.Name()+"."+st.Field(i).Name()))
				}
			}
		case *types.Basic:
			// a value receiver of a named integer type is an ordinary first parameter
			if ptr {
				fail("pointer receiver of a non-struct type")
			}
			ityOf(rt)
			params = append(params, q(t.nameOf(r)))
		default:
			fail("receiver type %s", rt.String())
		}
	}
	if sig.TypeParams() != nil && sig.TypeParams().Len() > 1 {
		fail("more than one type parameter")
	}
	if sig.Variadic() {
		fail("variadic function")
	}
	for i := 0; i < sig.Params().Len(); i++ {
		p := sig.Params().At(i)
		ityOf(p.Type())
		params = append(params, q(t.nameOf(p)))
	}
	for i := 0; i < sig.Results().Len(); i++ {
		r := sig.Results().At(i)
		ityOf(r.Type())
		if r.Name() != "" && r.Name() != "_" {
			t.nameOf(r)
		}
	}
	body := t.block(fd.Body, sig.Results())
	key := funcKey(fn)
	ident := "f_" + strings.NewReplacer(".", "_").Replace(key)
	p := fset.Position(fd.Pos())
	out = emitted{key: key, ident: ident, pos: fmt.Sprintf("%s:%d", relfile, p.Line),
		body: "{| fparams := [" + strings.Join(params, "; ") + "];\n   fouts := [" + strings.Join(outs, "; ") + "];\n   fbody :=\n   " + body + " |}"}
	return out, nil
}

func main() {
	if len(os.Args) < 2 {
		fmt.Fprintln(os.Stderr, "usage (from the repository root): go2coq <out.v>")
		os.Exit(2)
	}
	var ems []emitted
	var unsup []string
	// GO2COQ_SELECT="dir=Name1,Name2;dir2=T.Method" replaces the built-in selection (used by the self-test)
	if env := os.Getenv("GO2COQ_SELECT"); env != "" {
		selected = nil
		for _, part := range strings.Split(env, ";") {
			kv := strings.SplitN(part, "=", 2)
			if len(kv) == 2 {
				selected = append(selected, struct {
					dir   string
					names []string
				}{kv[0], strings.Split(kv[1], ",")})
			}
		}
	}
	for _, sel := range selected {
		fset := token.NewFileSet()
		pkgs, err := parser.ParseDir(fset, sel.dir, func(fi os.FileInfo) bool {
			return !strings.HasSuffix(fi.Name(), "_test.go") && !strings.HasSuffix(fi.Name(), "_verif.go")
		}, 0)
		if err != nil {
			fmt.Fprintln(os.Stderr, err)
			os.Exit(1)
		}
		for _, p := range pkgs {
			var files []*ast.File
			var fnames []string
			for fn := range p.Files {
				fnames = append(fnames, fn)
			}
			sort.Strings(fnames)
			for _, fn := range fnames {
				files = append(files, p.Files[fn])
			}
			info := &types.Info{Types: map[ast.Expr]types.TypeAndValue{}, Instances: map[*ast.Ident]types.Instance{},
				Uses: map[*ast.Ident]types.Object{}, Defs: map[*ast.Ident]types.Object{}}
			conf := types.Config{Importer: importer.ForCompiler(fset, "source", nil)}
			abs, _ := filepath.Abs(sel.dir)
			tpkg, err := conf.Check(abs, fset, files, info)
			if err != nil {
				fmt.Fprintln(os.Stderr, "type check:", err)
				os.Exit(1)
			}
			found := map[string]bool{}
			for i, f := range files {
				for _, d := range f.Decls {
					fd, ok := d.(*ast.FuncDecl)
					if !ok || fd.Body == nil {
						continue
					}
					name := fd.Name.Name
					if fd.Recv != nil && len(fd.Recv.List) == 1 {
						rt := fd.Recv.List[0].Type
						if s, ok := rt.(*ast.StarExpr); ok {
							rt = s.X
						}
						if id, ok := rt.(*ast.Ident); ok {
							name = id.Name + "." + name
						}
					}
					want := false
					for _, n := range sel.names {
						if n == name {
							want = true
						}
					}
					if !want {
						continue
					}
					found[name] = true
					em, err := translate(fset, info, tpkg, fd, filepath.ToSlash(fnames[i]))
					if err != nil {
						unsup = append(unsup, fmt.Sprintf("%s.%s: %v", tpkg.Name(), name, err))
						continue
					}
					ems = append(ems, em)
				}
			}
			for _, n := range sel.names {
				if !found[n] {
					unsup = append(unsup, fmt.Sprintf("%s.%s: not found in the source", p.Name, n))
				}
			}
		}
	}
	var sb strings.Builder
	sb.WriteString("(* GENERATED by go2coq from the Go source of go-square - do not edit.\n   Regenerated by bin/check on every run; the theorems of GenProofs/ are about these values. *)\n")
	sb.WriteString("From GS.Model Require Import GoLite.\nOpen Scope string_scope.\nOpen Scope Z_scope.\n\n")
	for _, e := range ems {
		fmt.Fprintf(&sb, "(* %s  (%s) *)\nDefinition %s : fundef :=\n  %s.\n\n", e.key, e.pos, e.ident, e.body)
	}
	sb.WriteString("Definition gen_program : program :=\n  [")
	for i, e := range ems {
		if i > 0 {
			sb.WriteString(";\n   ")
		}
		fmt.Fprintf(&sb, "(%s, %s)", q(e.key), e.ident)
	}
	sb.WriteString("].\n\n")
	sb.WriteString("(* functions outside the supported fragment (their theorems will not compile): *)\nDefinition gen_unsupported : list string :=\n  [")
	for i, u := range unsup {
		if i > 0 {
			sb.WriteString(";\n   ")
		}
		sb.WriteString(q(strings.ReplaceAll(u, "\"", "'")))
	}
	sb.WriteString("].\n")
	if err := os.WriteFile(os.Args[1], []byte(sb.String()), 0o644); err != nil {
		fmt.Fprintln(os.Stderr, err)
		os.Exit(1)
	}
	for _, u := range unsup {
		fmt.Fprintln(os.Stderr, "unsupported:", u)
	}
	fmt.Printf("go2coq: %d functions translated, %d unsupported\n", len(ems), len(unsup))
}
