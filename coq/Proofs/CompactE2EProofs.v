(* C09 / C11, end to end on the CODE MODEL: writer, then parser.

   The two halves are proved elsewhere:
     (i)  writer   : CompactWriterProofs - NewCompactShareSplitter / WriteTx* / Export never
                     fail and export the closed form [compact_spec_ix], Count is [cneeded];
                     SplitterHistoryProofs - the same after any history of writes, exports
                     and counts;
     (ii) parser   : CompactParseProofs.parse_txs_compact_spec (whole sequence, C09),
                     SubrangeProofs.parse_subrange(_sublist) (every sub-range, C11).
   Here they are composed: the statements below do not mention the closed form any more,
   only new_csplitter / write_txs (or a history [run]) / cs_export / cs_count and parse_txs. *)
From Coq Require Import List Arith NArith ZArith Lia Bool.
From Coq Require Import ZifyN ZifyNat ZifyBool.
From GS.Model Require Import Base Varint Namespace ShareFmt Compact Counter Builder.
From GS.Spec Require Import ShareSpec CompactSpec.
From GS.Proofs Require Import BaseLemmas CompactWriterProofs CompactParseProofs SubrangeProofs
  SplitterHistoryProofs.
Import ListNotations.

Open Scope nat_scope.

(* ---------- share-count minimality, in terms of AvailableBytesFromCompactShares ---------- *)

(* n shares are the minimum that hold len bytes:  available (n-1) < len <= available n
   (available_compact k = AvailableBytesFromCompactShares(k), Model/Counter.v), no smaller
   number of shares holds them, and n = CompactSharesNeeded(len). *)
Definition min_share_count (n len : nat) : Prop :=
  (Z.of_nat len <= available_compact (Z.of_nat n))%Z /\
  (0 < n -> (available_compact (Z.of_nat n - 1) < Z.of_nat len)%Z) /\
  (forall k : nat, (Z.of_nat len <= available_compact (Z.of_nat k))%Z -> n <= k) /\
  N.of_nat n = compact_shares_needed (N.of_nat len).

Lemma cneeded_min_share_count len : min_share_count (cneeded len) len.
Proof.
  destruct (cneeded_minimal len) as (H1 & H2 & H3 & H4).
  unfold min_share_count. split; [rewrite <- H3; lia|]. split; [|split; [|exact H4]].
  - intros Hpos.
    replace (Z.of_nat (cneeded len) - 1)%Z with (Z.of_nat (cneeded len - 1)) by lia.
    rewrite <- H3.
    destruct (le_lt_dec len (coff (cneeded len - 1))) as [Hle|Hlt]; [|lia].
    specialize (H2 _ Hle). lia.
  - intros k Hk. rewrite <- H3 in Hk. apply H2. lia.
Qed.

(* ---------- what holds of the closed form (writer-independent) ---------- *)

(* C09: everything the property says about the share sequence of [txs] *)
Definition round_trip_facts (txs : list bytes) (count : N) (shs : list share) : Prop :=
  parse_txs shs = Ok txs /\
  (forall sh rest, shs = sh :: rest ->
     sh_start sh = true /\ sh_seq_len sh = lenN (stream txs) /\
     Forall (fun x => sh_start x = false /\ sh_seq_len x = 0%N) rest) /\
  lenN shs = count /\
  min_share_count (length shs) (length (stream txs)).

Lemma u32_small n : (n < 4294967296)%N -> u32 n = n.
Proof. intros H. unfold u32. apply N.mod_small. exact H. Qed.

Lemma spec_round_trip_facts ns txs :
  length ns = 29 -> is_compact_ns ns = true -> Forall (fun t => t <> []) txs ->
  (lenN (stream txs) < 4294967296)%N ->
  round_trip_facts txs (N.of_nat (cneeded (length (stream txs)))) (compact_spec_ix ns 0 txs).
Proof.
  intros Hns Hc Hne Hb. unfold round_trip_facts.
  split; [|split; [|split]].
  - destruct txs as [|t tl].
    + rewrite compact_spec_ix_nil. reflexivity.
    + apply parse_txs_compact_spec; try assumption. discriminate.
  - intros sh rest E.
    destruct (compact_spec_ix_seq_len ns 0%N txs sh rest Hns (N.le_0_l 127) E) as (A & B & C).
    rewrite u32_small in B by exact Hb. repeat split; assumption.
  - unfold lenN. rewrite compact_spec_ix_length. reflexivity.
  - rewrite compact_spec_ix_length. apply cneeded_min_share_count.
Qed.

(* C11: every sub-range of the share sequence of [txs] *)
Definition subrange_facts (txs : list bytes) (shs : list share) : Prop :=
  forall lo hi, lo <= hi <= length shs ->
    parse_txs (firstn (hi - lo) (skipn lo shs)) = Ok (sub_expected lo hi txs) /\
    (forall res, parse_txs (firstn (hi - lo) (skipn lo shs)) = Ok res ->
       exists pre post, txs = pre ++ res ++ post).

Lemma spec_subrange_facts_unbounded ns txs :
  length ns = 29 -> is_compact_ns ns = true ->
  Forall (fun tx => 0 < length tx /\ (lenN tx < 2 ^ 64)%N) txs ->
  subrange_facts txs (compact_spec_ix ns 0 txs).
Proof.
  intros Hns Hc Hok lo hi Hr.
  assert (E : parse_txs (firstn (hi - lo) (skipn lo (compact_spec_ix ns 0 txs)))
              = Ok (sub_expected lo hi txs)) by (apply parse_subrange_unbounded; assumption).
  split; [exact E|]. intros res H. rewrite E in H. injection H as <-.
  apply sub_expected_contiguous.
Qed.

Lemma spec_subrange_facts ns txs :
  length ns = 29 -> is_compact_ns ns = true -> Forall (fun t => t <> []) txs ->
  (lenN (stream txs) < 4294967296)%N ->
  subrange_facts txs (compact_spec_ix ns 0 txs).
Proof.
  intros Hns Hc Hne Hb. apply spec_subrange_facts_unbounded; try assumption.
  exact (tx_ok_of_bound txs Hne Hb).
Qed.

(* ---------- the writer: write_txs is the history consisting of writes only ---------- *)
Lemma run_writes : forall txs c, run c (map SWrite txs) = write_txs c txs.
Proof.
  induction txs as [|t tl IH]; intros c; [reflexivity|].
  cbn [map run step write_txs]. destruct (cs_write_tx c t); cbn [bind]; [apply IH|reflexivity|reflexivity].
Qed.

Lemma writes_of_writes : forall txs, writes_of (map SWrite txs) = txs.
Proof. induction txs as [|t tl IH]; [reflexivity|]. cbn [map writes_of]. rewrite IH. reflexivity. Qed.

(* what a splitter exports and counts: a function of the transactions written *)
Lemma write_export_spec ns txs c0 c c' shs :
  length ns = 29 -> is_compact_ns ns = true ->
  new_csplitter ns 0 = Ok c0 -> write_txs c0 txs = Ok c -> cs_export c = Ok (c', shs) ->
  shs = compact_spec_ix ns 0 txs /\ cs_count c = N.of_nat (cneeded (length (stream txs))).
Proof.
  intros Hns Hc H0 Hw He.
  destruct (compact_write_spec ns 0%N Hns Hc (N.le_0_l 127) txs c0 c H0 Hw) as (c'' & He').
  rewrite He in He'. injection He' as _ E.
  split; [exact E|]. exact (compact_count_spec ns 0%N Hns Hc (N.le_0_l 127) txs c0 c H0 Hw).
Qed.

(* any history of writes, exports and counts on a fresh splitter succeeds, and a final
   export then succeeds and returns the closed form of the transactions written *)
Lemma history_export_total ns ops c0 :
  length ns = 29 -> is_compact_ns ns = true -> new_csplitter ns 0 = Ok c0 ->
  exists c1 x1, run c0 ops = Ok c1 /\
    cs_export c1 = Ok (x1, compact_spec_ix ns 0 (writes_of ops)) /\
    cs_count c1 = N.of_nat (cneeded (length (stream (writes_of ops)))).
Proof.
  intros Hns Hc H0.
  destruct (compact_write_total ns 0%N Hns Hc (N.le_0_l 127) (writes_of ops) c0 H0) as (c2 & Hw).
  assert (Hr2 : run c0 (map SWrite (writes_of ops)) = Ok c2) by (rewrite run_writes; exact Hw).
  destruct (splitter_history_total ns 0%N ops c0 c2 Hns H0 Hr2)
    as (c1 & x1 & x2 & shs & Hr1 & He1 & He2 & _ & Hcnt).
  destruct (write_export_spec ns (writes_of ops) c0 c2 x2 shs Hns Hc H0 Hw He2) as (-> & Hc2).
  exists c1, x1. split; [exact Hr1|]. split; [exact He1|]. rewrite Hcnt. exact Hc2.
Qed.

Lemma history_export_spec ns ops c0 c1 x1 shs :
  length ns = 29 -> is_compact_ns ns = true -> new_csplitter ns 0 = Ok c0 ->
  run c0 ops = Ok c1 -> cs_export c1 = Ok (x1, shs) ->
  shs = compact_spec_ix ns 0 (writes_of ops) /\
  cs_count c1 = N.of_nat (cneeded (length (stream (writes_of ops)))).
Proof.
  intros Hns Hc H0 Hr He.
  destruct (history_export_total ns ops c0 Hns Hc H0) as (d1 & y1 & Hr' & He' & Hcnt).
  rewrite Hr in Hr'. injection Hr' as <-. rewrite He in He'. injection He' as _ E.
  split; [exact E|exact Hcnt].
Qed.

(* ======================= C09 on the code model ======================= *)

(* whatever the writer returned: it parses back to the transactions, the sequence length is
   the number of length-prefixed bytes, the share count is Count() and it is minimal *)
Theorem compact_round_trip_code ns txs c0 c c' shs :
  length ns = 29 -> is_compact_ns ns = true -> Forall (fun t => t <> []) txs ->
  (lenN (stream txs) < 4294967296)%N ->
  new_csplitter ns 0 = Ok c0 -> write_txs c0 txs = Ok c -> cs_export c = Ok (c', shs) ->
  round_trip_facts txs (cs_count c) shs.
Proof.
  intros Hns Hc Hne Hb H0 Hw He.
  destruct (write_export_spec ns txs c0 c c' shs Hns Hc H0 Hw He) as (-> & ->).
  apply spec_round_trip_facts; assumption.
Qed.

(* ... and the writer does return: construction, writes and export never fail *)
Theorem compact_round_trip_code_total ns txs :
  length ns = 29 -> is_compact_ns ns = true -> Forall (fun t => t <> []) txs ->
  (lenN (stream txs) < 4294967296)%N ->
  exists c0 c c' shs,
    new_csplitter ns 0 = Ok c0 /\ write_txs c0 txs = Ok c /\ cs_export c = Ok (c', shs) /\
    round_trip_facts txs (cs_count c) shs.
Proof.
  intros Hns Hc Hne Hb.
  destruct (compact_encode_spec ns 0%N txs Hns Hc (N.le_0_l 127)) as (c0 & c & c' & H0 & Hw & He & _).
  exists c0, c, c', (compact_spec_ix ns 0 txs).
  split; [exact H0|]. split; [exact Hw|]. split; [exact He|].
  exact (compact_round_trip_code ns txs c0 c c' _ Hns Hc Hne Hb H0 Hw He).
Qed.

(* after ANY history of writes, exports and counts *)
Theorem compact_round_trip_history ns ops c0 c1 x1 shs :
  length ns = 29 -> is_compact_ns ns = true -> Forall (fun t => t <> []) (writes_of ops) ->
  (lenN (stream (writes_of ops)) < 4294967296)%N ->
  new_csplitter ns 0 = Ok c0 -> run c0 ops = Ok c1 -> cs_export c1 = Ok (x1, shs) ->
  round_trip_facts (writes_of ops) (cs_count c1) shs.
Proof.
  intros Hns Hc Hne Hb H0 Hr He.
  destruct (history_export_spec ns ops c0 c1 x1 shs Hns Hc H0 Hr He) as (-> & ->).
  apply spec_round_trip_facts; assumption.
Qed.

Theorem compact_round_trip_history_total ns ops :
  length ns = 29 -> is_compact_ns ns = true -> Forall (fun t => t <> []) (writes_of ops) ->
  (lenN (stream (writes_of ops)) < 4294967296)%N ->
  exists c0 c1 x1 shs,
    new_csplitter ns 0 = Ok c0 /\ run c0 ops = Ok c1 /\ cs_export c1 = Ok (x1, shs) /\
    round_trip_facts (writes_of ops) (cs_count c1) shs.
Proof.
  intros Hns Hc Hne Hb.
  destruct (new_csplitter_ok ns 0%N Hc (N.le_0_l 127)) as (c0 & H0).
  destruct (history_export_total ns ops c0 Hns Hc H0) as (c1 & x1 & Hr & He & _).
  exists c0, c1, x1, (compact_spec_ix ns 0 (writes_of ops)).
  split; [exact H0|]. split; [exact Hr|]. split; [exact He|].
  exact (compact_round_trip_history ns ops c0 c1 x1 _ Hns Hc Hne Hb H0 Hr He).
Qed.

(* ======================= C11 on the code model ======================= *)

Theorem compact_subrange_code ns txs c0 c c' shs :
  length ns = 29 -> is_compact_ns ns = true -> Forall (fun t => t <> []) txs ->
  (lenN (stream txs) < 4294967296)%N ->
  new_csplitter ns 0 = Ok c0 -> write_txs c0 txs = Ok c -> cs_export c = Ok (c', shs) ->
  subrange_facts txs shs.
Proof.
  intros Hns Hc Hne Hb H0 Hw He.
  destruct (write_export_spec ns txs c0 c c' shs Hns Hc H0 Hw He) as (-> & _).
  apply spec_subrange_facts; assumption.
Qed.

(* without the 32-bit bound on the stream (the parser never reads the sequence length) *)
Theorem compact_subrange_code_unbounded ns txs c0 c c' shs :
  length ns = 29 -> is_compact_ns ns = true ->
  Forall (fun tx => 0 < length tx /\ (lenN tx < 2 ^ 64)%N) txs ->
  new_csplitter ns 0 = Ok c0 -> write_txs c0 txs = Ok c -> cs_export c = Ok (c', shs) ->
  subrange_facts txs shs.
Proof.
  intros Hns Hc Hok H0 Hw He.
  destruct (write_export_spec ns txs c0 c c' shs Hns Hc H0 Hw He) as (-> & _).
  apply spec_subrange_facts_unbounded; assumption.
Qed.

Theorem compact_subrange_code_total ns txs :
  length ns = 29 -> is_compact_ns ns = true -> Forall (fun t => t <> []) txs ->
  (lenN (stream txs) < 4294967296)%N ->
  exists c0 c c' shs,
    new_csplitter ns 0 = Ok c0 /\ write_txs c0 txs = Ok c /\ cs_export c = Ok (c', shs) /\
    subrange_facts txs shs.
Proof.
  intros Hns Hc Hne Hb.
  destruct (compact_encode_spec ns 0%N txs Hns Hc (N.le_0_l 127)) as (c0 & c & c' & H0 & Hw & He & _).
  exists c0, c, c', (compact_spec_ix ns 0 txs).
  split; [exact H0|]. split; [exact Hw|]. split; [exact He|].
  exact (compact_subrange_code ns txs c0 c c' _ Hns Hc Hne Hb H0 Hw He).
Qed.

Theorem compact_subrange_history ns ops c0 c1 x1 shs :
  length ns = 29 -> is_compact_ns ns = true -> Forall (fun t => t <> []) (writes_of ops) ->
  (lenN (stream (writes_of ops)) < 4294967296)%N ->
  new_csplitter ns 0 = Ok c0 -> run c0 ops = Ok c1 -> cs_export c1 = Ok (x1, shs) ->
  subrange_facts (writes_of ops) shs.
Proof.
  intros Hns Hc Hne Hb H0 Hr He.
  destruct (history_export_spec ns ops c0 c1 x1 shs Hns Hc H0 Hr He) as (-> & _).
  apply spec_subrange_facts; assumption.
Qed.

Theorem compact_subrange_history_total ns ops :
  length ns = 29 -> is_compact_ns ns = true -> Forall (fun t => t <> []) (writes_of ops) ->
  (lenN (stream (writes_of ops)) < 4294967296)%N ->
  exists c0 c1 x1 shs,
    new_csplitter ns 0 = Ok c0 /\ run c0 ops = Ok c1 /\ cs_export c1 = Ok (x1, shs) /\
    subrange_facts (writes_of ops) shs.
Proof.
  intros Hns Hc Hne Hb.
  destruct (new_csplitter_ok ns 0%N Hc (N.le_0_l 127)) as (c0 & H0).
  destruct (history_export_total ns ops c0 Hns Hc H0) as (c1 & x1 & Hr & He & _).
  exists c0, c1, x1, (compact_spec_ix ns 0 (writes_of ops)).
  split; [exact H0|]. split; [exact Hr|]. split; [exact He|].
  exact (compact_subrange_history ns ops c0 c1 x1 _ Hns Hc Hne Hb H0 Hr He).
Qed.
