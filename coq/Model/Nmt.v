(* The parts of github.com/celestiaorg/nmt (v0.22.2) used by
   inclusion.GenerateSubtreeRoots / CreateCommitment and by the row trees of a
   square: NmtHasher.HashLeaf / HashNode (IgnoreMaxNamespace = true, namespace
   size 29), Push's order check, computeRoot / getSplitPoint, ComputeSubtreeRoot
   and nextSubtreeSize; the RFC-6962 Merkle root used as MerkleRootFn
   (tendermint merkle.HashFromByteSlices); inclusion/commitment.go itself.
   Everything is parametrised by the base hash [H : bytes -> bytes]
   (crypto/sha256 in Go, Model/Sha256.v in the runner).  Definitions only. *)
From GS.Model Require Import Base Namespace ShareFmt Blob Sparse Arith Sha256.
Open Scope N_scope.

(* ---------- the RFC-6962 split recursion, for any node type ---------- *)

(* getSplitPoint(length): k = 1 << (bits.Len(length) - 1); if k == length { k >>= 1 },
   the largest power of two strictly less than length (length >= 2) *)
Definition split_point (n : N) : N :=
  let k := 2 ^ N.log2 n in if k =? n then k / 2 else k.

(* computeRoot / HashFromByteSlices over the list of leaf values: [empty] for no
   leaf, the leaf itself for one, else combine the roots of the two parts.
   Fuel: the number of leaves (both parts are strictly shorter). *)
Fixpoint mroot_fuel {T} (fuel : nat) (f : T -> T -> T) (empty : T) (l : list T) : T :=
  match fuel with
  | O => empty
  | S fu =>
    match l with
    | [] => empty
    | [x] => x
    | _ =>
      let k := split_point (lenN l) in
      f (mroot_fuel fu f empty (takeN k l)) (mroot_fuel fu f empty (dropN k l))
    end
  end.
Definition mroot {T} (f : T -> T -> T) (empty : T) (l : list T) : T :=
  mroot_fuel (length l) f empty l.

(* [inner_node f empty l off len]: follow the recursion of [mroot] on [l] down to
   the recursive call that covers exactly the leaves [off, off+len); [Some v] with
   the value of that call if there is one, [None] if the range is not an inner
   node of the tree over [l]. *)
Fixpoint inner_node_fuel {T} (fuel : nat) (f : T -> T -> T) (empty : T) (l : list T)
         (off len : N) : option T :=
  match fuel with
  | O => None
  | S fu =>
    if (off =? 0) && (len =? lenN l) then Some (mroot f empty l)
    else if lenN l <? 2 then None
    else
      let k := split_point (lenN l) in
      if off + len <=? k then inner_node_fuel fu f empty (takeN k l) off len
      else if k <=? off then inner_node_fuel fu f empty (dropN k l) (off - k) len
      else None
  end.
Definition inner_node {T} (f : T -> T -> T) (empty : T) (l : list T) (off len : N) : option T :=
  inner_node_fuel (S (length l)) f empty l off len.

(* the nodes of one level of the tree: the consecutive blocks of [len] leaves of [l]
   (length l a multiple of len), each replaced by its root *)
Definition level_nodes {T} (f : T -> T -> T) (empty : T) (l : list T) (len : N) : list T :=
  map (fun p => mroot f empty (takeN len (dropN (N.of_nat p * len) l)))
      (seq 0 (N.to_nat (lenN l / len))).

(* ---------- NmtHasher ---------- *)

Definition nmt_ns_len : nat := 29.
Definition nmt_hash_size : nat := 32.   (* baseHasher.Size() of sha256.New() *)
Definition nmt_node_size : nat := 90.   (* NmtHasher.Size() = 32 + 2 * 29 *)
Definition nmt_max_ns : bytes := repeat Byte.xff nmt_ns_len.

(* namespace.ID.Less *)
Definition id_less (a b : bytes) : bool :=
  match bytes_cmp a b with Lt => true | _ => false end.

(* HashLeaf: error iff the data is shorter than a namespace;
   nID || nID || h(0x00 || ndata) *)
Definition hash_leaf (H : bytes -> bytes) (ndata : bytes) : outcome bytes :=
  if Nat.ltb (length ndata) nmt_ns_len then Err else
  let nid := firstn nmt_ns_len ndata in
  Ok (nid ++ nid ++ H (Byte.x00 :: ndata)).

(* MinNamespace / MaxNamespace of a node (called only after the length check) *)
Definition node_min (n : bytes) : bytes := firstn nmt_ns_len n.
Definition node_max (n : bytes) : bytes := firstn nmt_ns_len (skipn nmt_ns_len n).

(* ValidateNodeFormat: true = nil *)
Definition validate_node_format (n : bytes) : bool :=
  Nat.eqb (length n) nmt_node_size && negb (id_less (node_max n) (node_min n)).

(* ValidateNodes (both formats, then validateSiblingsNamespaceOrder): true = nil *)
Definition validate_nodes (l r : bytes) : bool :=
  validate_node_format l && validate_node_format r && negb (id_less (node_min r) (node_max l)).

(* HashNode with ignoreMaxNs = true:
   min = left.min; max = left.max if right.min is the maximal namespace else right.max;
   min || max || h(0x01 || left || right) *)
Definition hash_node (H : bytes -> bytes) (l r : bytes) : outcome bytes :=
  if negb (validate_nodes l r) then Err else
  let mx := if bytes_eqb nmt_max_ns (node_min r) then node_max l else node_max r in
  Ok (node_min l ++ mx ++ H (Byte.x01 :: l ++ r)).

(* EmptyRoot *)
Definition nmt_empty_root (H : bytes -> bytes) : bytes :=
  zeros nmt_ns_len ++ zeros nmt_ns_len ++ H [].

(* computeRoot on values that carry the error of an earlier step: the error of the
   left part, else of the right part, else HashNode's *)
Definition hash_node_o (H : bytes -> bytes) (l r : outcome bytes) : outcome bytes :=
  do a <- l; do b <- r; hash_node H a b.

(* computeRoot(0, n) over the leaf hashes *)
Definition nmt_compute_root (H : bytes -> bytes) (hashes : list (outcome bytes)) : outcome bytes :=
  mroot (hash_node_o H) (Ok (nmt_empty_root H)) hashes.

(* Push, for every leaf in turn: validateAndExtractNamespace (long enough; namespace
   not below the previous leaf's), true = every Push returned nil *)
Fixpoint push_ok_from (prev : option bytes) (leaves : list bytes) : bool :=
  match leaves with
  | [] => true
  | d :: tl =>
    if Nat.ltb (length d) nmt_ns_len then false else
    let nid := firstn nmt_ns_len d in
    match prev with
    | Some p => if id_less nid p then false else push_ok_from (Some nid) tl
    | None => push_ok_from (Some nid) tl
    end
  end.
Definition nmt_push_ok (leaves : list bytes) : bool := push_ok_from None leaves.

Definition nmt_leaf_hashes (H : bytes -> bytes) (leaves : list bytes) : list (outcome bytes) :=
  map (hash_leaf H) leaves.

(* nmt.New(...); Push(leaf) for every leaf; Root() *)
Definition nmt_root (H : bytes -> bytes) (leaves : list bytes) : outcome bytes :=
  if nmt_push_ok leaves then nmt_compute_root H (nmt_leaf_hashes H leaves) else Err.

(* bits.TrailingZeros64 *)
Fixpoint pos_tz (p : positive) : N :=
  match p with xO q => 1 + pos_tz q | _ => 0 end.
Definition trailing_zeros64 (n : N) : N :=
  match n with N0 => 64 | Npos p => pos_tz p end.

(* nextSubtreeSize(start, end), end > start *)
Definition next_subtree_size (start end_ : N) : N :=
  let ideal := trailing_zeros64 start in
  let mx := N.log2 (end_ - start) in
  if mx <? ideal then 2 ^ mx else 2 ^ ideal.

(* ComputeSubtreeRoot(start, end) on a tree holding [leaves] (start >= 0) *)
Definition nmt_subtree_root (H : bytes -> bytes) (leaves : list bytes) (start end_ : N) : outcome bytes :=
  if end_ <=? start then Err else
  if negb (next_subtree_size start end_ =? end_ - start) then Err else
  if lenN leaves <? end_ then Err else
  nmt_compute_root H (takeN (end_ - start) (dropN start (nmt_leaf_hashes H leaves))).

(* the leaves of the row tree of a square row: namespace of the share || share *)
Definition row_leaves (row : list share) : list bytes :=
  map (fun s => firstn nmt_ns_len s ++ s) row.

(* ---------- tendermint merkle.HashFromByteSlices (the MerkleRootFn) ---------- *)
Definition merkle_leaf (H : bytes -> bytes) (x : bytes) : bytes := H (Byte.x00 :: x).
Definition merkle_inner (H : bytes -> bytes) (l r : bytes) : bytes := H (Byte.x01 :: l ++ r).
Definition merkle_root (H : bytes -> bytes) (items : list bytes) : bytes :=
  mroot (merkle_inner H) (H []) (map (merkle_leaf H) items).

(* ---------- inclusion/commitment.go ---------- *)

(* leafSets[i] = shares[cursor : cursor+treeSize] *)
Fixpoint leaf_sets (shares : list share) (cursor : N) (sizes : list N) : outcome (list (list share)) :=
  match sizes with
  | [] => Ok []
  | m :: tl =>
    do set <- slice_list cursor (cursor + m) shares;
    do rest <- leaf_sets shares (cursor + m) tl;
    Ok (set :: rest)
  end.

(* GenerateSubtreeRoots(blob, subtreeRootThreshold); a zero threshold divides by zero *)
Definition subtree_roots (H : bytes -> bytes) (b : blob) (thr : N) : outcome (list bytes) :=
  do shares <- sparse_write b;
  if thr =? 0 then Fault else
  let w := subtree_width (lenN shares) thr in
  let sizes := mmr_sizes (lenN shares) w in
  do sets <- leaf_sets shares 0 sizes;
  map_outcome (fun set => nmt_root H (map (fun s => b_ns b ++ s) set)) sets.

(* CreateCommitment(blob, merkleRootFn, subtreeRootThreshold) *)
Definition create_commitment (H : bytes -> bytes) (mrf : list bytes -> bytes) (b : blob) (thr : N)
  : outcome bytes :=
  do roots <- subtree_roots H b thr; Ok (mrf roots).

(* the instances that are run against the Go code *)
Definition subtree_roots_sha (b : blob) (thr : N) : outcome (list bytes) := subtree_roots sha256 b thr.
Definition commitment_sha (b : blob) (thr : N) : outcome bytes :=
  create_commitment sha256 (merkle_root sha256) b thr.
