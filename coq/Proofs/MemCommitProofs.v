(* C17, second part: the commit and re-write paths on the explicit-memory model
   (Model/MemCommit.v).  GenerateSubtreeRoots' leaf construction, the loop that pushes
   the leaves onto an nmt tree (which RETAINS them), SparseShareSplitter.Write and the
   compositions "ParseBlobs, then commit to / re-write the parsed blob" leave every
   pre-existing block unchanged, write only to blocks they allocated and compute what
   the pure models compute; the two `append(view, ...)` variants do modify their input. *)
From Coq Require Import List Arith NArith Lia Bool.
From GS.Model Require Import Base Varint Namespace ShareFmt Blob Sparse Arith Compact Square Mem
  Sha256 Nmt MemCommit.
From GS.Spec Require Import ShareSpec.
From GS.Proofs Require Import BaseLemmas SparseProofs MemProofs.
Import ListNotations.
Ltac Zify.zify_post_hook ::= idtac.
Open Scope nat_scope.

(* ================================================================== *)
(* 1. The read-only discipline                                         *)
(* ================================================================== *)

(* a buffer the computation allocated itself *)
Definition priv (n0 : nat) (s : slice) : Prop := n0 <= sl_blk s.

Lemma priv_safe n0 s : priv n0 s -> safe n0 s.
Proof. intros H. right. exact H. Qed.

Lemma ro_true n0 {A} (P : A -> Prop) (m : M A) : ro n0 P m -> ro n0 (fun _ => True) m.
Proof. intros H. eapply ro_weaken; [exact H|auto]. Qed.

Lemma ro_mmake n0 c : ro n0 (priv n0) (mmake c).
Proof.
  intros st L. unfold mmake. cbn [fst snd]. split.
  - repeat split; cbn.
    + apply firstn_app_le. exact L.
    + rewrite app_length. lia.
    + intros H. constructor; auto. intros _. cbn. exact L.
  - intros a K. inversion K; subst. unfold priv. cbn. exact L.
Qed.

Lemma ro_mstore n0 s off data : priv n0 s -> ro n0 (fun _ => True) (mstore s off data).
Proof.
  intros P st L. unfold mstore. destruct (Nat.leb _ _); cbn [fst snd].
  - split; [|auto]. repeat split; cbn.
    + unfold hwrite. apply firstn_upd_nth_ge. exact P.
    + unfold hwrite. rewrite length_upd_nth. lia.
    + intros H. constructor; auto. intros _. cbn. exact P.
  - split; [apply ext_refl|auto].
Qed.

Lemma mappend_lit_priv n0 g dst data st :
  n0 <= length (st_heap st) -> priv n0 dst -> priv n0 (snd (mappend_lit g dst data st)).
Proof.
  intros L P. unfold mappend_lit. destruct data as [|d0 data]; [exact P|].
  destruct (Nat.leb _ _); cbn [snd]; unfold priv; cbn [sl_blk]; auto.
Qed.

Lemma ro_mappend_bytes n0 g dst data : safe n0 dst -> ro n0 (safe n0) (mappend_bytes g dst data).
Proof.
  intros S st L. unfold mappend_bytes.
  pose proof (mappend_lit_ext n0 g dst data st L S) as [E S'].
  destruct (mappend_lit g dst data st) as [st' d]. cbn [fst snd] in *. split; [exact E|].
  intros a K. inversion K; subst. exact S'.
Qed.

Lemma ro_mappend_bytes_priv n0 g dst data : priv n0 dst -> ro n0 (priv n0) (mappend_bytes g dst data).
Proof.
  intros P st L. unfold mappend_bytes.
  pose proof (mappend_lit_ext n0 g dst data st L (priv_safe _ _ P)) as [E _].
  pose proof (mappend_lit_priv n0 g dst data st L P) as P'.
  destruct (mappend_lit g dst data st) as [st' d]. cbn [fst snd] in *. split; [exact E|].
  intros a K. inversion K; subst. exact P'.
Qed.

Lemma ro_mappend_priv n0 g dst src : priv n0 dst -> ro n0 (priv n0) (mappend g dst src).
Proof.
  intros P st L. unfold mappend.
  pose proof (mappend_lit_ext n0 g dst (mread_bytes (st_heap st) src) (log_read src st) L (priv_safe _ _ P))
    as [E _].
  pose proof (mappend_lit_priv n0 g dst (mread_bytes (st_heap st) src) (log_read src st) L P) as P'.
  destruct (mappend_lit g dst _ _) as [st' d]. cbn [fst snd] in *. split.
  - eapply ext_trans; [apply ext_log_read|exact E].
  - intros a K. inversion K; subst. exact P'.
Qed.

Lemma ro_lift_true n0 {A} (o : outcome A) : ro n0 (fun _ => True) (mlift o).
Proof. apply ro_lift. auto. Qed.

(* ---- the leaf, the tree, the loop over the leaves ---- *)

(* whatever the namespace and share views are: both appends go to a buffer that starts
   as the empty slice, so they never write in front of n0 *)
Lemma ro_leaf_build_mem n0 g ns leaf : ro n0 (safe n0) (leaf_build_mem g ns leaf).
Proof.
  unfold leaf_build_mem.
  eapply ro_bind; [apply ro_mappend; apply safe_nil|]. intros l0 S0.
  apply ro_mappend. exact S0.
Qed.

(* Push only reads: the new leaf and the previously retained one *)
Lemma ro_tree_push_mem n0 H t leaf : ro n0 (fun _ => True) (tree_push_mem H t leaf).
Proof.
  unfold tree_push_mem. destruct (Nat.ltb _ _); [apply ro_err|].
  eapply ro_bind; [apply ro_lift_true|]. intros nidv _.
  eapply ro_bind; [apply ro_mread|]. intros nid _.
  eapply ro_bind with (P := fun _ => True).
  { destruct (t_leaves t) as [|prev older]; [apply ro_ret; exact I|].
    eapply ro_bind; [apply ro_lift_true|]. intros pv _.
    eapply ro_bind; [apply ro_mread|]. intros p _. apply ro_ret. exact I. }
  intros ordered _. destruct (negb ordered); [apply ro_err|].
  eapply ro_bind; [apply ro_mread|]. intros d _.
  eapply ro_bind; [apply ro_lift_true|]. intros h _.
  apply ro_ret. exact I.
Qed.

Lemma ro_subtree_leaves_mem n0 g H ns : forall leaves t,
  ro n0 (fun _ => True) (subtree_leaves_mem g H ns leaves t).
Proof.
  unfold subtree_leaves_mem.
  induction leaves as [|leaf tl IH]; intros t; cbn [subtree_leaves_gen].
  - apply ro_ret. exact I.
  - eapply ro_bind; [apply ro_true with (P := safe n0); apply ro_leaf_build_mem|]. intros nsl _.
    eapply ro_bind; [apply ro_tree_push_mem|]. intros t' _. apply IH.
Qed.

Lemma ro_subtree_root_mem n0 g H ns set : ro n0 (fun _ => True) (subtree_root_gen g true H ns set).
Proof.
  unfold subtree_root_gen.
  eapply ro_bind; [apply (ro_subtree_leaves_mem n0 g H ns set mtree_empty)|]. intros t _.
  apply ro_lift_true.
Qed.

(* ---- the share builder and SparseShareSplitter.Write ---- *)

Definition bpriv (n0 : nat) (b : mbuilder) : Prop := priv n0 (mbd_raw b).

Lemma ro_new_builder_mem n0 g ns ver first : ro n0 (bpriv n0) (new_builder_mem g ns ver first).
Proof.
  unfold new_builder_mem.
  eapply ro_bind; [apply ro_mread|]. intros nsb _.
  eapply ro_bind; [apply ro_mmake|]. intros sd P0.
  eapply ro_bind; [apply ro_lift_true|]. intros info _.
  eapply ro_bind; [apply ro_mappend_priv; exact P0|]. intros sd1 P1.
  eapply ro_bind; [apply ro_mappend_bytes_priv; exact P1|]. intros sd2 P2.
  eapply ro_bind with (P := priv n0).
  { destruct first; [apply ro_mappend_bytes_priv; exact P2|apply ro_ret; exact P2]. }
  intros sd3 P3.
  eapply ro_bind with (P := priv n0).
  { destruct (is_compact_ns nsb); [apply ro_mappend_bytes_priv; exact P3|apply ro_ret; exact P3]. }
  intros sd4 P4. apply ro_ret. exact P4.
Qed.

Lemma ro_write_seq_len_mem n0 b n : bpriv n0 b -> ro n0 (fun _ => True) (write_seq_len_mem b n).
Proof.
  intros P. unfold write_seq_len_mem. destruct (negb _); [apply ro_err|]. apply ro_mstore. exact P.
Qed.

Lemma ro_write_signer_mem n0 g b signer : bpriv n0 b -> ro n0 (bpriv n0) (write_signer_mem g b signer).
Proof.
  intros P. unfold write_signer_mem. destruct (_ || _); [apply ro_ret; exact P|].
  eapply ro_bind; [apply ro_mappend_priv; exact P|]. intros r Pr. apply ro_ret. exact Pr.
Qed.

Lemma ro_add_data_mem n0 g b data :
  bpriv n0 b -> ro n0 (fun bl => bpriv n0 (fst bl)) (add_data_mem g b data).
Proof.
  intros P. unfold add_data_mem. destruct (Nat.leb _ _).
  - eapply ro_bind; [apply ro_mappend_priv; exact P|]. intros r Pr. apply ro_ret. exact Pr.
  - eapply ro_bind; [apply ro_lift_true|]. intros chunk _.
    eapply ro_bind; [apply ro_mappend_priv; exact P|]. intros r Pr.
    eapply ro_bind; [apply ro_lift_true|]. intros rest _. apply ro_ret. exact Pr.
Qed.

Lemma ro_zero_pad_mem n0 g b : bpriv n0 b -> ro n0 (bpriv n0) (zero_pad_mem g b).
Proof.
  intros P. unfold zero_pad_mem.
  eapply ro_bind; [apply ro_mappend_bytes_priv; exact P|]. intros r Pr. apply ro_ret. exact Pr.
Qed.

Lemma ro_build_mem n0 b : ro n0 (fun _ => True) (build_mem b).
Proof. unfold build_mem. destruct (Nat.eqb _ _); [apply ro_ret; exact I|apply ro_err]. Qed.

Lemma ro_sparse_write_loop_mem n0 g ns ver : forall fuel b data acc,
  bpriv n0 b -> ro n0 (fun _ => True) (sparse_write_loop_mem g fuel ns ver b data acc).
Proof.
  induction fuel as [|f IH]; intros b data acc P; cbn [sparse_write_loop_mem]; [apply ro_err|].
  eapply ro_bind; [apply ro_add_data_mem; exact P|]. intros [b1 lft] P1. cbn [fst snd] in *.
  eapply ro_bind with (P := bpriv n0).
  { destruct lft; [apply ro_ret; exact P1|apply ro_zero_pad_mem; exact P1]. }
  intros b2 P2.
  eapply ro_bind; [apply ro_build_mem|]. intros sh _.
  destruct lft as [rest|]; [|apply ro_ret; exact I].
  eapply ro_bind; [apply ro_new_builder_mem|]. intros nb Pnb. apply IH. exact Pnb.
Qed.

(* Write: for every namespace / signer / data views - they are only read *)
Lemma ro_sparse_write_mem n0 g bl : ro n0 (fun _ => True) (sparse_write_mem g bl).
Proof.
  unfold sparse_write_mem. destruct (negb _); [apply ro_err|].
  eapply ro_bind; [apply ro_new_builder_mem|]. intros b P.
  eapply ro_bind; [apply ro_write_seq_len_mem; exact P|]. intros _ _.
  eapply ro_bind with (P := bpriv n0).
  { destruct (N.eqb _ _); [apply ro_write_signer_mem; exact P|apply ro_ret; exact P]. }
  intros b2 P2. apply ro_sparse_write_loop_mem. exact P2.
Qed.

(* GenerateSubtreeRoots *)
Lemma ro_subtree_roots_mem n0 g H bl thr : ro n0 (fun _ => True) (subtree_roots_mem g H bl thr).
Proof.
  unfold subtree_roots_mem, subtree_roots_gen, sparse_write_gen.
  eapply ro_bind; [apply ro_sparse_write_mem|]. intros shares _.
  destruct (N.eqb thr 0); [apply ro_lift_true|].
  eapply ro_bind; [apply ro_lift_true|]. intros sets _.
  eapply ro_true. apply ro_mmap with (P := fun _ => True). intros set. apply ro_subtree_root_mem.
Qed.

(* ---- ParseBlobs returning views, and the compositions ---- *)

Lemma ro_finish_mseq_view n0 q : ro n0 (fun _ => True) (finish_mseq_view q).
Proof.
  unfold finish_mseq_view. destruct (N.ltb _ _); [apply ro_err|].
  eapply ro_bind; [apply ro_lift_true|]. intros d _.
  eapply ro_bind; [apply ro_mread|]. intros nsb _.
  eapply ro_bind; [apply ro_mread|]. intros db _.
  eapply ro_bind; [apply ro_mread_opt|]. intros sgb _.
  eapply ro_bind; [apply ro_lift_true|]. intros _ _.
  apply ro_ret. exact I.
Qed.

Lemma ro_parse_blobs_views_mem n0 g views : ro n0 (fun _ => True) (parse_blobs_views_mem g views).
Proof.
  unfold parse_blobs_views_mem.
  eapply ro_bind; [apply ro_parse_sparse_loop; constructor|]. intros seqs _.
  eapply ro_true. apply ro_mmap with (P := fun _ => True). intros q. apply ro_finish_mseq_view.
Qed.

Lemma ro_parse_then_commit_mem n0 g H thr views :
  ro n0 (fun _ => True) (parse_then_commit_mem g H thr views).
Proof.
  unfold parse_then_commit_mem, parse_then_commit_gen.
  eapply ro_bind; [apply ro_parse_blobs_views_mem|]. intros blobs _.
  eapply ro_true. apply ro_mmap with (P := fun _ => True). intros b. apply ro_subtree_roots_mem.
Qed.

Lemma ro_parse_then_write_mem n0 g views : ro n0 (fun _ => True) (parse_then_write_mem g views).
Proof.
  unfold parse_then_write_mem, parse_then_write_gen, sparse_write_gen.
  eapply ro_bind; [apply ro_parse_blobs_views_mem|]. intros blobs _.
  eapply ro_true. apply ro_mmap with (P := fun _ => True). intros b. apply ro_sparse_write_mem.
Qed.

(* ---- the statements (run_read_only: heap restricted to the initial blocks is the
        initial heap; every logged write targets a block allocated by the run) ---- *)

Theorem leaf_build_mem_readonly : forall g h ns leaf, run_read_only (leaf_build_mem g ns leaf) h.
Proof. intros. exact (ro_run _ _ h (ro_leaf_build_mem (length h) g ns leaf)). Qed.

Theorem subtree_leaves_mem_readonly : forall g H h ns leaves t,
  run_read_only (subtree_leaves_mem g H ns leaves t) h.
Proof. intros. exact (ro_run _ _ h (ro_subtree_leaves_mem (length h) g H ns leaves t)). Qed.

Theorem sparse_write_mem_readonly : forall g h bl, run_read_only (sparse_write_mem g bl) h.
Proof. intros. exact (ro_run _ _ h (ro_sparse_write_mem (length h) g bl)). Qed.

Theorem subtree_roots_mem_readonly : forall g H h bl thr, run_read_only (subtree_roots_mem g H bl thr) h.
Proof. intros. exact (ro_run _ _ h (ro_subtree_roots_mem (length h) g H bl thr)). Qed.

Theorem parse_blobs_views_mem_readonly : forall g h views, run_read_only (parse_blobs_views_mem g views) h.
Proof. intros. exact (ro_run _ _ h (ro_parse_blobs_views_mem (length h) g views)). Qed.

Theorem parse_then_commit_mem_readonly : forall g H thr h views,
  run_read_only (parse_then_commit_mem g H thr views) h.
Proof. intros. exact (ro_run _ _ h (ro_parse_then_commit_mem (length h) g H thr views)). Qed.

Theorem parse_then_write_mem_readonly : forall g h views,
  run_read_only (parse_then_write_mem g views) h.
Proof. intros. exact (ro_run _ _ h (ro_parse_then_write_mem (length h) g views)). Qed.

(* ================================================================== *)
(* 2. Refinement: the same bytes as the pure models                    *)
(* ================================================================== *)

Lemma mbind_ok {A B} (m : M A) (f : A -> M B) st st1 a :
  m st = (st1, Ok a) -> mbind m f st = f a st1.
Proof. intros E. unfold mbind. rewrite E. reflexivity. Qed.

Lemma mbind_err {A B} (m : M A) (f : A -> M B) st st1 :
  m st = (st1, Err) -> mbind m f st = (st1, Err).
Proof. intros E. unfold mbind. rewrite E. reflexivity. Qed.

Lemma mbind_fault {A B} (m : M A) (f : A -> M B) st st1 :
  m st = (st1, Fault) -> mbind m f st = (st1, Fault).
Proof. intros E. unfold mbind. rewrite E. reflexivity. Qed.

(* the heap [h] extends [h0] (as a list of blocks) without changing its blocks *)
Definition agree (h0 h : heap) : Prop :=
  length h0 <= length h /\ forall b, b < length h0 -> hblock h b = hblock h0 b.

Lemma agree_refl h : agree h h.
Proof. split; auto. Qed.

Lemma agree_trans a b c : agree a b -> agree b c -> agree a c.
Proof.
  intros [L1 H1] [L2 H2]. split; [lia|]. intros k Hk. rewrite H2 by lia. apply H1. exact Hk.
Qed.

Lemma agree_read h0 h s : agree h0 h -> sl_blk s < length h0 -> mread_bytes h s = mread_bytes h0 s.
Proof. intros [_ A] L. apply mread_same_block. apply A. exact L. Qed.

Lemma agree_wf h0 h s : agree h0 h -> wf_slice h0 s -> wf_slice h s.
Proof.
  intros [L A] W. eapply wf_same_block; [exact L| |exact W]. apply A. apply W.
Qed.

Lemma agree_firstn h0 h : firstn (length h0) h = firstn (length h0) h0 -> length h0 <= length h -> agree h0 h.
Proof. intros E L. split; [exact L|]. intros b Hb. eapply hblock_firstn; eassumption. Qed.

(* a computation that keeps the discipline for n0 = the current number of blocks
   leaves every existing block alone *)
Lemma ro_agree {A} (P : A -> Prop) (m : M A) st :
  ro (length (st_heap st)) P m -> agree (st_heap st) (st_heap (fst (m st))).
Proof.
  intros R. destruct (R st (le_n _)) as [(E & L & _) _]. apply agree_firstn; assumption.
Qed.

(* ---- the leaf ---- *)

Lemma leaf_build_mem_spec g ns leaf st :
  sl_blk ns < length (st_heap st) -> sl_blk leaf < length (st_heap st) ->
  exists st' d, leaf_build_mem g ns leaf st = (st', Ok d) /\
    agree (st_heap st) (st_heap st') /\ acc_ok (st_heap st') d /\
    mread_bytes (st_heap st') d = mread_bytes (st_heap st) ns ++ mread_bytes (st_heap st) leaf.
Proof.
  intros BN BL. set (n0 := length (st_heap st)).
  pose proof (ro_agree _ _ st (ro_leaf_build_mem n0 g ns leaf)) as AG.
  unfold leaf_build_mem in *.
  destruct (mappend_acc n0 g nil_slice ns st (le_n _) (safe_nil _) (or_introl (conj eq_refl eq_refl)))
    as (st1 & l0 & EQ1 & E1 & L1 & S1 & A1 & R1).
  rewrite (mbind_ok _ _ _ _ _ EQ1) in *.
  destruct (mappend_acc n0 g l0 leaf st1 L1 S1 A1) as (st2 & d & EQ2 & E2 & L2 & S2 & A2 & R2).
  rewrite EQ2 in *. cbn [fst] in AG. exists st2, d. split; [reflexivity|]. split; [exact AG|].
  split; [exact A2|]. rewrite R2, R1, mread_nil. cbn [app]. f_equal.
  apply mread_same_block. eapply hblock_firstn; [exact E1|exact BL].
Qed.

(* ---- Push ---- *)

(* the namespace of the last pushed leaf, as Push reads it from the retained slice *)
Definition tree_prev (h : heap) (t : mtree) : option bytes :=
  match t_leaves t with
  | [] => None
  | p :: _ => Some (firstn nmt_ns_len (mread_bytes h p))
  end.

Definition retained_ok (h : heap) (l : slice) : Prop := wf_slice h l /\ nmt_ns_len <= sl_len l.

Lemma tree_push_mem_spec H t d st :
  acc_ok (st_heap st) d -> Forall (retained_ok (st_heap st)) (t_leaves t) ->
  let data := mread_bytes (st_heap st) d in
  exists st', st_heap st' = st_heap st /\
  tree_push_mem H t d st = (st',
    if Nat.ltb (length data) nmt_ns_len then Err else
    if match tree_prev (st_heap st) t with
       | Some p => id_less (firstn nmt_ns_len data) p
       | None => false
       end then Err else
    do h <- hash_leaf H data;
    Ok (mk_mtree (d :: t_leaves t) (h :: t_hashes t) (data :: t_fed t))).
Proof.
  intros A F data. unfold tree_push_mem.
  assert (LD : length data = sl_len d) by (apply acc_ok_len; exact A).
  rewrite LD. destruct (Nat.ltb (sl_len d) nmt_ns_len) eqn:LT; [exists st; split; reflexivity|].
  apply Nat.ltb_ge in LT.
  assert (WD : wf_slice (st_heap st) d).
  { destruct A as [[C0 L0]|W]; [unfold nmt_ns_len in LT; lia|exact W]. }
  assert (CD : nmt_ns_len <= sl_cap d) by (destruct WD as (_ & WL & _); lia).
  assert (E1 : mslice2 d 0 nmt_ns_len = Ok (mk_slice (sl_blk d) (sl_off d + 0) (nmt_ns_len - 0) (sl_cap d - 0)))
    by (apply mslice2_ok; lia).
  set (nidv := mk_slice _ _ _ _) in E1.
  assert (RN : mread_bytes (st_heap st) nidv = firstn nmt_ns_len data).
  { rewrite (mread_mslice2 (st_heap st) d 0 nmt_ns_len nidv E1) by lia.
    rewrite skipn_O, Nat.sub_0_r. reflexivity. }
  clearbody nidv.
  unfold tree_prev. destruct (t_leaves t) as [|prev older] eqn:TL.
  - unfold mbind, mret, mread, mlift. cbn beta. rewrite E1. cbn beta iota.
    cbn [fst snd negb log_read log_acc st_heap]. fold data.
    destruct (hash_leaf H data); cbn [bind]; eexists; (split; [|reflexivity]); reflexivity.
  - inversion F as [|p' o' [WP LP] _]; subst p' o'.
    assert (CP : nmt_ns_len <= sl_cap prev) by (destruct WP as (_ & WL & _); lia).
    assert (E2 : mslice2 prev 0 nmt_ns_len =
                 Ok (mk_slice (sl_blk prev) (sl_off prev + 0) (nmt_ns_len - 0) (sl_cap prev - 0)))
      by (apply mslice2_ok; lia).
    set (pv := mk_slice _ _ _ _) in E2.
    assert (RP : mread_bytes (st_heap st) pv = firstn nmt_ns_len (mread_bytes (st_heap st) prev)).
    { rewrite (mread_mslice2 (st_heap st) prev 0 nmt_ns_len pv E2) by lia.
      rewrite skipn_O, Nat.sub_0_r. reflexivity. }
    clearbody pv.
    unfold mbind, mret, mread, mlift. cbn beta. rewrite E1. cbn beta iota. rewrite E2. cbn beta iota.
    cbn [fst snd log_read log_acc st_heap]. rewrite RN, RP.
    destruct (id_less (firstn nmt_ns_len data) (firstn nmt_ns_len (mread_bytes (st_heap st) prev)));
      cbn [negb]; [eexists; (split; [|reflexivity]); reflexivity|].
    cbn [log_read log_acc st_heap]. fold data.
    destruct (hash_leaf H data); cbn [bind]; eexists; (split; [|reflexivity]); reflexivity.
Qed.

(* ---- the loop over the leaves ---- *)

(* the tree after pushing the leaves [pl] (oldest first): the retained slices still
   denote them, HashLeaf was fed exactly them, the stored hashes are their hashes *)
Definition tree_inv (H : bytes -> bytes) (h : heap) (t : mtree) (pl : list bytes) : Prop :=
  Forall (retained_ok h) (t_leaves t) /\
  map (mread_bytes h) (rev (t_leaves t)) = pl /\
  rev (t_fed t) = pl /\
  map (@Ok bytes) (rev (t_hashes t)) = map (hash_leaf H) pl.

Lemma tree_inv_empty H h : tree_inv H h mtree_empty [].
Proof. repeat split; constructor. Qed.

Lemma retained_ok_agree h h' l : agree h h' -> retained_ok h l -> retained_ok h' l.
Proof. intros AG [W L]. split; [eapply agree_wf; eassumption|exact L]. Qed.

Lemma tree_inv_agree H h h' t pl : agree h h' -> tree_inv H h t pl -> tree_inv H h' t pl.
Proof.
  intros AG (F & ML & FE & HS). split; [|split; [|split]]; auto.
  - eapply Forall_impl; [|exact F]. intros l. apply retained_ok_agree. exact AG.
  - rewrite <- ML. apply map_ext_in. intros l Hl. apply agree_read; [exact AG|].
    apply in_rev in Hl. rewrite Forall_forall in F. apply (F l Hl).
Qed.

Lemma tree_prev_agree h h' t : agree h h' -> Forall (retained_ok h) (t_leaves t) ->
  tree_prev h' t = tree_prev h t.
Proof.
  intros AG F. unfold tree_prev. destruct (t_leaves t) as [|p older]; [reflexivity|].
  inversion F as [|p' o' [W _] _]; subst. f_equal. f_equal. apply agree_read; [exact AG|apply W].
Qed.

Lemma hash_leaf_ok H x : nmt_ns_len <= length x ->
  hash_leaf H x = Ok (firstn nmt_ns_len x ++ firstn nmt_ns_len x ++ H (Byte.x00 :: x)).
Proof.
  intros L. unfold hash_leaf. rewrite (proj2 (Nat.ltb_ge _ _) L). reflexivity.
Qed.

Lemma subtree_leaves_mem_refines_gen g H h0 ns : forall leaves st t pl,
  agree h0 (st_heap st) -> sl_blk ns < length h0 -> Forall (fun l => sl_blk l < length h0) leaves ->
  tree_inv H (st_heap st) t pl ->
  forall r, r = subtree_leaves_mem g H ns leaves t st ->
  let pr := map (fun l => mread_bytes h0 ns ++ mread_bytes h0 l) leaves in
  agree (st_heap st) (st_heap (fst r)) /\
  match snd r with
  | Ok t' => push_ok_from (tree_prev (st_heap st) t) pr = true /\
             tree_inv H (st_heap (fst r)) t' (pl ++ pr)
  | Err => push_ok_from (tree_prev (st_heap st) t) pr = false
  | Fault => False
  end.
Proof.
  unfold subtree_leaves_mem.
  induction leaves as [|leaf tl IH]; intros st t pl AG BN FL TI r RE.
  - subst r. cbn. split; [apply agree_refl|]. split; [reflexivity|]. rewrite app_nil_r. exact TI.
  - inversion FL as [|l' tl' BL FL']; subst l' tl'.
    assert (LN : length h0 <= length (st_heap st)) by apply AG.
    cbn [subtree_leaves_gen leaf_build_gen] in RE.
    destruct (leaf_build_mem_spec g ns leaf st ltac:(lia) ltac:(lia)) as (st1 & d & EQ1 & AG1 & A1 & R1).
    rewrite (mbind_ok _ _ _ _ _ EQ1) in RE.
    rewrite (agree_read h0 (st_heap st) ns AG BN), (agree_read h0 (st_heap st) leaf AG BL) in R1.
    set (x := mread_bytes h0 ns ++ mread_bytes h0 leaf) in *.
    pose proof (tree_inv_agree H _ _ t pl AG1 TI) as TI1.
    destruct (tree_push_mem_spec H t d st1 A1 (proj1 TI1)) as (st2 & H2 & EQ2).
    cbv zeta in EQ2. rewrite R1 in EQ2.
    rewrite (tree_prev_agree _ _ t AG1 (proj1 TI)) in EQ2.
    cbn [map]. fold x.
    destruct (Nat.ltb (length x) nmt_ns_len) eqn:LT.
    { rewrite (mbind_err _ _ _ _ EQ2) in RE. subst r. cbn [fst snd]. rewrite H2. split; [exact AG1|].
      cbn [push_ok_from]. rewrite LT. reflexivity. }
    apply Nat.ltb_ge in LT.
    assert (PE : push_ok_from (tree_prev (st_heap st) t)
                   (x :: map (fun l => mread_bytes h0 ns ++ mread_bytes h0 l) tl) =
                 if match tree_prev (st_heap st) t with
                    | Some p => id_less (firstn nmt_ns_len x) p
                    | None => false
                    end then false
                 else push_ok_from (Some (firstn nmt_ns_len x))
                        (map (fun l => mread_bytes h0 ns ++ mread_bytes h0 l) tl)).
    { cbn [push_ok_from]. rewrite (proj2 (Nat.ltb_ge _ _) LT).
      destruct (tree_prev (st_heap st) t) as [p|]; [|reflexivity].
      destruct (id_less (firstn nmt_ns_len x) p); reflexivity. }
    destruct (match tree_prev (st_heap st) t with
              | Some p => id_less (firstn nmt_ns_len x) p
              | None => false
              end) eqn:ORD.
    { rewrite (mbind_err _ _ _ _ EQ2) in RE. subst r. cbn [fst snd]. rewrite H2. split; [exact AG1|].
      rewrite PE. reflexivity. }
    rewrite (hash_leaf_ok H x LT) in EQ2. cbn [bind] in EQ2.
    set (hx := firstn nmt_ns_len x ++ firstn nmt_ns_len x ++ H (Byte.x00 :: x)) in *.
    rewrite (mbind_ok _ _ _ _ _ EQ2) in RE.
    set (t' := mk_mtree (d :: t_leaves t) (hx :: t_hashes t) (x :: t_fed t)) in *.
    assert (WD : wf_slice (st_heap st1) d).
    { destruct A1 as [[C0 L0]|W]; [|exact W].
      pose proof (f_equal (@length byte) R1) as K. pose proof (length_mread_le (st_heap st1) d).
      unfold nmt_ns_len in LT. lia. }
    assert (LDX : sl_len d = length x).
    { rewrite <- R1. symmetry. apply length_mread. exact WD. }
    assert (TI2 : tree_inv H (st_heap st2) t' (pl ++ [x])).
    { rewrite H2. destruct TI1 as (F1 & ML1 & FE1 & HS1). unfold t'. split; [|split; [|split]]; cbn [t_leaves t_fed t_hashes].
      - constructor; [|exact F1]. split; [exact WD|lia].
      - cbn [rev]. rewrite map_app, ML1. cbn [map]. rewrite R1. reflexivity.
      - cbn [rev]. rewrite FE1. reflexivity.
      - cbn [rev]. rewrite !map_app, HS1. cbn [map]. rewrite (hash_leaf_ok H x LT). reflexivity. }
    assert (AG2 : agree h0 (st_heap st2)).
    { rewrite H2. eapply agree_trans; eassumption. }
    specialize (IH st2 t' (pl ++ [x]) AG2 BN FL' TI2 r RE). cbv zeta in IH.
    destruct IH as [AGr REL]. split.
    + eapply agree_trans; [exact AG1|]. rewrite <- H2. exact AGr.
    + assert (TP : tree_prev (st_heap st2) t' = Some (firstn nmt_ns_len x)).
      { unfold tree_prev, t'. cbn [t_leaves]. rewrite H2, R1. reflexivity. }
      rewrite TP in REL. rewrite PE. rewrite <- app_assoc in REL. exact REL.
Qed.

(* one leaf set: New, Push all, Root  =  nmt_root of the leaves  ns || share *)
Lemma subtree_root_mem_refines g H h0 ns set st :
  agree h0 (st_heap st) -> sl_blk ns < length h0 -> Forall (fun l => sl_blk l < length h0) set ->
  agree (st_heap st) (st_heap (fst (subtree_root_gen g true H ns set st))) /\
  snd (subtree_root_gen g true H ns set st) =
    nmt_root H (map (fun l => mread_bytes h0 ns ++ mread_bytes h0 l) set).
Proof.
  intros AG BN FL. unfold subtree_root_gen.
  destruct (subtree_leaves_mem_refines_gen g H h0 ns set st mtree_empty [] AG BN FL (tree_inv_empty H _)
              _ eq_refl) as [AGr REL].
  unfold subtree_leaves_mem in *. unfold mbind.
  destruct (subtree_leaves_gen g true H ns set mtree_empty st) as [st' [t'| |]]; cbn [fst snd] in *.
  - destruct REL as [PO (_ & _ & _ & HS)]. split; [exact AGr|].
    unfold nmt_root, nmt_push_ok. cbn [tree_prev t_leaves mtree_empty] in PO. rewrite PO.
    unfold tree_root, nmt_leaf_hashes. rewrite HS. reflexivity.
  - split; [exact AGr|]. unfold nmt_root, nmt_push_ok. cbn [tree_prev t_leaves mtree_empty] in REL.
    rewrite REL. reflexivity.
  - contradiction.
Qed.

(* what the loop hands to the hasher, what the tree retains, what Root returns *)
Theorem subtree_leaves_mem_refines : forall g H h ns leaves,
  sl_blk ns < length h -> Forall (fun l => sl_blk l < length h) leaves ->
  let r := subtree_leaves_mem g H ns leaves mtree_empty (mk_st h []) in
  let pl := map (fun l => mread_bytes h ns ++ mread_bytes h l) leaves in
  match snd r with
  | Ok t =>
    nmt_push_ok pl = true /\
    rev (t_fed t) = pl /\
    map (mread_bytes (st_heap (fst r))) (rev (t_leaves t)) = pl /\
    tree_root H t = nmt_root H pl
  | Err => nmt_push_ok pl = false /\ nmt_root H pl = Err
  | Fault => False
  end.
Proof.
  intros g H h ns leaves BN FL r pl.
  destruct (subtree_leaves_mem_refines_gen g H h ns leaves (mk_st h []) mtree_empty [] (agree_refl h) BN FL
              (tree_inv_empty H _) r eq_refl) as [_ REL].
  fold pl in REL. cbn [tree_prev t_leaves mtree_empty] in REL. fold (nmt_push_ok pl) in REL.
  destruct (snd r) as [t| |]; [|split; [exact REL|unfold nmt_root; rewrite REL; reflexivity]|exact REL].
  destruct REL as [PO (_ & ML & FE & HS)]. cbn [app] in *. repeat split; auto.
  unfold nmt_root, tree_root, nmt_leaf_hashes. rewrite PO, HS. reflexivity.
Qed.

Theorem leaf_build_mem_refines : forall g h ns leaf,
  sl_blk ns < length h -> sl_blk leaf < length h ->
  let r := leaf_build_mem g ns leaf (mk_st h []) in
  exists d, snd r = Ok d /\
    mread_bytes (st_heap (fst r)) d = mread_bytes h ns ++ mread_bytes h leaf.
Proof.
  intros g h ns leaf BN BL r.
  destruct (leaf_build_mem_spec g ns leaf (mk_st h []) BN BL) as (st' & d & EQ & _ & _ & R).
  subst r. rewrite EQ. exists d. split; [reflexivity|exact R].
Qed.

(* ---- operations on a private buffer ---- *)

(* an operation turned the buffer [raw] into [raw'] holding [content]: every other
   existing block is untouched; [raw'] is in the block of [raw] or in a new one *)
Definition rstep (st st' : mstate) (raw raw' : slice) (content : bytes) : Prop :=
  length (st_heap st) <= length (st_heap st') /\
  (forall b, b < length (st_heap st) -> b <> sl_blk raw ->
     hblock (st_heap st') b = hblock (st_heap st) b) /\
  (sl_blk raw' = sl_blk raw \/ length (st_heap st) <= sl_blk raw') /\
  wf_slice (st_heap st') raw' /\
  mread_bytes (st_heap st') raw' = content.

Lemma mappend_lit_rstep g raw data st :
  wf_slice (st_heap st) raw ->
  exists st' raw', mappend_lit g raw data st = (st', raw') /\
    rstep st st' raw raw' (mread_bytes (st_heap st) raw ++ data).
Proof.
  intros W. destruct data as [|d0 data'] eqn:ED.
  - exists st, raw. split; [reflexivity|]. split; [lia|]. split; [auto|]. split; [left; reflexivity|].
    split; [exact W|]. symmetry. apply app_nil_r.
  - rewrite <- ED.
    destruct (mappend_lit_spec g raw data st (or_intror W)) as (st' & d & EQ & A & B & C & D & E & _ & _).
    { rewrite ED. discriminate. }
    exists st', d. split; [exact EQ|]. split; [exact A|]. split; [|split; [|split; [exact D|exact C]]].
    + intros b Hb NE. apply B; [exact Hb|]. destruct E as [E|[E _]]; lia.
    + destruct E as [E|[E _]]; [right; lia|left; exact E].
Qed.

Lemma mappend_rstep g raw src st :
  wf_slice (st_heap st) raw ->
  exists st' raw', mappend g raw src st = (st', Ok raw') /\
    rstep st st' raw raw' (mread_bytes (st_heap st) raw ++ mread_bytes (st_heap st) src).
Proof.
  intros W. unfold mappend.
  destruct (mappend_lit_rstep g raw (mread_bytes (st_heap st) src) (log_read src st) W)
    as (st' & raw' & EQ & R).
  rewrite EQ. exists st', raw'. split; [reflexivity|exact R].
Qed.

Lemma mappend_bytes_rstep g raw data st :
  wf_slice (st_heap st) raw ->
  exists st' raw', mappend_bytes g raw data st = (st', Ok raw') /\
    rstep st st' raw raw' (mread_bytes (st_heap st) raw ++ data).
Proof.
  intros W. unfold mappend_bytes.
  destruct (mappend_lit_rstep g raw data st W) as (st' & raw' & EQ & R).
  rewrite EQ. exists st', raw'. split; [reflexivity|exact R].
Qed.

Lemma length_set_at_ off v (l : bytes) : off + length v <= length l -> length (set_at off v l) = length l.
Proof.
  intros H. unfold set_at. rewrite !app_length, firstn_length_le, skipn_length by lia. lia.
Qed.

Lemma skipn_set_at a o v (l : bytes) : a <= length l ->
  skipn a (set_at (a + o) v l) = set_at o v (skipn a l).
Proof.
  intros H. unfold set_at. rewrite skipn_app, skipn_firstn_comm.
  replace (a + o - a) with o by lia.
  rewrite firstn_length. replace (a - Nat.min (a + o) (length l)) with 0 by lia.
  rewrite skipn_O, mem_skipn_skipn. f_equal. f_equal. f_equal. lia.
Qed.

Lemma firstn_set_at n o v (l : bytes) : o + length v <= n -> n <= length l ->
  firstn n (set_at o v l) = set_at o v (firstn n l).
Proof.
  intros H1 H2. unfold set_at.
  rewrite firstn_app, firstn_length_le by lia.
  rewrite (firstn_all2 (n := n) (firstn o l)) by (rewrite firstn_length; lia).
  rewrite firstn_firstn, Nat.min_l by lia. f_equal.
  rewrite firstn_app. rewrite (firstn_all2 (n := n - o) v) by lia. f_equal.
  rewrite skipn_firstn_comm. f_equal. lia.
Qed.

Lemma mstore_rstep raw off data st :
  wf_slice (st_heap st) raw -> off + length data <= sl_len raw ->
  exists st', mstore raw off data st = (st', Ok tt) /\
    rstep st st' raw raw (set_at off data (mread_bytes (st_heap st) raw)).
Proof.
  intros (WB & WL & WC) LE. unfold mstore. rewrite (proj2 (Nat.leb_le _ _) LE).
  eexists. split; [reflexivity|]. unfold rstep. cbn [log_acc st_heap].
  set (h := st_heap st) in *. set (B := hblock h (sl_blk raw)) in *.
  assert (HB : hblock (hwrite h (sl_blk raw) (sl_off raw + off) data) (sl_blk raw)
               = set_at (sl_off raw + off) data B).
  { unfold hblock, hwrite. apply nth_upd_nth_same. exact WB. }
  assert (HO : forall b, b <> sl_blk raw ->
               hblock (hwrite h (sl_blk raw) (sl_off raw + off) data) b = hblock h b).
  { intros b Hb. unfold hblock, hwrite. apply nth_upd_nth_other. exact Hb. }
  split; [unfold hwrite; rewrite length_upd_nth; lia|].
  split; [intros b _ Hb; apply HO; exact Hb|].
  split; [left; reflexivity|]. split.
  - repeat split; auto.
    + unfold hwrite. rewrite length_upd_nth. exact WB.
    + rewrite HB, length_set_at_ by lia. exact WC.
  - unfold mread_bytes. rewrite HB. fold B.
    rewrite skipn_set_at by lia. apply firstn_set_at; [lia|]. rewrite skipn_length. lia.
Qed.

(* composition *)
Lemma rstep_trans st st1 st2 raw raw1 raw2 c1 c2 :
  rstep st st1 raw raw1 c1 -> rstep st1 st2 raw1 raw2 c2 -> rstep st st2 raw raw2 c2.
Proof.
  intros (A1 & B1 & C1 & D1 & E1) (A2 & B2 & C2 & D2 & E2).
  split; [lia|]. split; [|split; [|split; [exact D2|exact E2]]].
  - intros b Hb NE. rewrite B2; [apply B1; assumption|lia|]. destruct C1 as [C1|C1]; lia.
  - destruct C1 as [C1|C1], C2 as [C2|C2]; try (right; lia). left. congruence.
Qed.

(* ---- the builder ---- *)

Lemma mbind_mread {B} s (f : bytes -> M B) st :
  mbind (mread s) f st = f (mread_bytes (st_heap st) s) (log_read s st).
Proof. reflexivity. Qed.

Lemma mbind_mlift {A B} (o : outcome A) (f : A -> M B) st :
  mbind (mlift o) f st = match o with Ok a => f a st | Err => (st, Err) | Fault => (st, Fault) end.
Proof. reflexivity. Qed.

Lemma mbind_mret {A B} (a : A) (f : A -> M B) st : mbind (mret a) f st = f a st.
Proof. reflexivity. Qed.

Lemma mbind_assoc {A B C} (m : M A) (f : A -> M B) (k : B -> M C) st :
  mbind (mbind m f) k st = mbind m (fun a => mbind (f a) k) st.
Proof. unfold mbind. destruct (m st) as [st1 [a| |]]; reflexivity. Qed.

Lemma mbind_mmake {B} c (f : slice -> M B) st :
  mbind (mmake c) f st =
  f (mk_slice (length (st_heap st)) 0 0 c)
    (log_acc AW (length (st_heap st)) 0 c (mk_st (st_heap st ++ [zeros c]) (st_log st))).
Proof. reflexivity. Qed.

(* the memory-level builder represents the pure one: same flags, and its private
   buffer holds the pure builder's raw share data *)
Record bld_rel (h : heap) (b : mbuilder) (p : sbuilder) : Prop := mk_bld_rel {
  br_ver : mbd_ver b = sb_ver p;
  br_first : mbd_first b = sb_first p;
  br_compact : mbd_compact b = sb_compact p;
  br_wf : wf_slice h (mbd_raw b);
  br_raw : mread_bytes h (mbd_raw b) = sb_raw p
}.

Lemma bld_rel_len h b p : bld_rel h b p -> sl_len (mbd_raw b) = length (sb_raw p).
Proof. intros R. rewrite <- (br_raw _ _ _ R). symmetry. apply length_mread. apply (br_wf _ _ _ R). Qed.

Lemma bld_rel_with_raw h b p raw' content :
  bld_rel h b p -> wf_slice h raw' -> mread_bytes h raw' = content ->
  bld_rel h (mbd_with_raw b raw') (sb_with_raw p content).
Proof. intros [A B C D E] W R. constructor; cbn; auto. Qed.

Lemma new_builder_mem_spec g h0 ns ver first st :
  agree h0 (st_heap st) -> sl_blk ns < length h0 ->
  forall r, r = new_builder_mem g ns ver first st ->
  agree (st_heap st) (st_heap (fst r)) /\
  outcome_rel (fun b pb => bld_rel (st_heap (fst r)) b pb /\ length (st_heap st) <= sl_blk (mbd_raw b))
    (snd r) (new_builder (mread_bytes h0 ns) ver first).
Proof.
  intros AG BN r RE.
  destruct (ro_new_builder_mem (length (st_heap st)) g ns ver first st (le_n _)) as [_ PRV].
  pose proof (ro_agree _ _ st (ro_new_builder_mem (length (st_heap st)) g ns ver first)) as AGr.
  rewrite <- RE in PRV, AGr. split; [exact AGr|]. clear AGr.
  assert (LN : length h0 <= length (st_heap st)) by apply AG.
  unfold new_builder_mem in RE. rewrite mbind_mread in RE.
  rewrite (agree_read h0 (st_heap st) ns AG BN) in RE.
  set (nsb := mread_bytes h0 ns) in *.
  rewrite mbind_mmake in RE. cbn [log_read log_acc st_heap st_log] in RE.
  set (nb := length (st_heap st)) in *.
  set (sd := mk_slice nb 0 0 share_size) in *.
  set (st1 := log_acc AW nb 0 share_size (mk_st (st_heap st ++ [zeros share_size]) _)) in RE.
  rewrite mbind_mlift in RE. unfold new_builder.
  destruct (new_info_byte ver first) as [info| |]; cbn [bind]; [|subst r; exact I|subst r; exact I].
  assert (W0 : wf_slice (st_heap st1) sd).
  { unfold st1, sd. cbn [st_heap log_acc]. repeat split; cbn [sl_blk sl_off sl_len sl_cap].
    - rewrite app_length. cbn. lia.
    - lia.
    - fold nb. unfold nb. rewrite hblock_app_new, length_zeros. lia. }
  assert (R0 : mread_bytes (st_heap st1) sd = []).
  { unfold mread_bytes, sd. cbn [sl_len]. apply firstn_O. }
  assert (RNS : mread_bytes (st_heap st1) ns = nsb).
  { unfold st1. cbn [st_heap log_acc]. unfold nsb. rewrite <- (agree_read h0 (st_heap st) ns AG BN).
    apply mread_same_block. apply hblock_app_old. lia. }
  destruct (mappend_rstep g sd ns st1 W0) as (st2 & sd1 & EQ1 & (_ & _ & _ & W1 & C1)).
  rewrite (mbind_ok _ _ _ _ _ EQ1) in RE. rewrite R0, RNS in C1. cbn [app] in C1.
  destruct (mappend_bytes_rstep g sd1 [info] st2 W1) as (st3 & sd2 & EQ2 & (_ & _ & _ & W2 & C2)).
  rewrite (mbind_ok _ _ _ _ _ EQ2) in RE. rewrite C1 in C2.
  assert (X3 : (if first then mappend_bytes g sd2 (zeros 4) else mret sd2) =
               mappend_bytes g sd2 (if first then zeros 4 else [])) by (destruct first; reflexivity).
  rewrite X3 in RE. clear X3.
  destruct (mappend_bytes_rstep g sd2 (if first then zeros 4 else []) st3 W2)
    as (st4 & sd3 & EQ3 & (_ & _ & _ & W3 & C3)).
  rewrite (mbind_ok _ _ _ _ _ EQ3) in RE. rewrite C2 in C3.
  assert (X4 : (if is_compact_ns nsb then mappend_bytes g sd3 (zeros 4) else mret sd3) =
               mappend_bytes g sd3 (if is_compact_ns nsb then zeros 4 else []))
    by (destruct (is_compact_ns nsb); reflexivity).
  rewrite X4 in RE. clear X4.
  destruct (mappend_bytes_rstep g sd3 (if is_compact_ns nsb then zeros 4 else []) st4 W3)
    as (st5 & sd4 & EQ4 & (_ & _ & _ & W4 & C4)).
  rewrite (mbind_ok _ _ _ _ _ EQ4) in RE. rewrite C3 in C4.
  unfold mret in RE. subst r. cbn [fst snd outcome_rel] in *. split.
  - constructor; cbn [mbd_ver mbd_first mbd_compact mbd_raw sb_ver sb_first sb_compact sb_raw]; auto.
    rewrite C4, <- !app_assoc. reflexivity.
  - apply (PRV _ eq_refl).
Qed.

(* ---- SparseShareSplitter.Write ---- *)

(* the shares written so far sit in blocks other than the current builder's *)
Definition acc_rel (h : heap) (raw : slice) (acc : list slice) (pacc : list share) : Prop :=
  Forall2 (fun s sh => wf_slice h s /\ sl_blk s <> sl_blk raw /\ mread_bytes h s = sh) acc pacc.

(* the result: slices that denote the pure shares *)
Definition shares_rel (h : heap) (shs : list slice) (pshs : list share) : Prop :=
  Forall2 (fun s sh => wf_slice h s /\ mread_bytes h s = sh) shs pshs.

Lemma Forall2_impl_ {A B} (R S : A -> B -> Prop) l l' :
  (forall a b, R a b -> S a b) -> Forall2 R l l' -> Forall2 S l l'.
Proof. intros I F. induction F; constructor; auto. Qed.

Lemma acc_rel_shares h raw acc pacc : acc_rel h raw acc pacc -> shares_rel h acc pacc.
Proof. intros F. eapply Forall2_impl_; [|exact F]. intros s sh (A & _ & B). split; assumption. Qed.

Lemma inv_rstep h0 st st' raw raw' c acc pacc :
  agree h0 (st_heap st) -> length h0 <= sl_blk raw -> acc_rel (st_heap st) raw acc pacc ->
  rstep st st' raw raw' c ->
  agree h0 (st_heap st') /\ length h0 <= sl_blk raw' /\ acc_rel (st_heap st') raw' acc pacc.
Proof.
  intros [L0 A0] PR ACC (A & B & C & D & E). split; [|split].
  - split; [lia|]. intros b Hb. rewrite B by lia. apply A0. exact Hb.
  - destruct C as [C|C]; lia.
  - eapply Forall2_impl_; [|exact ACC]. intros s sh (W & NE & R).
    assert (SB : sl_blk s < length (st_heap st)) by apply W.
    assert (HB : hblock (st_heap st') (sl_blk s) = hblock (st_heap st) (sl_blk s)) by (apply B; assumption).
    split; [eapply wf_same_block; eassumption|]. split.
    + destruct C as [C|C]; lia.
    + rewrite <- R. apply mread_same_block. exact HB.
Qed.

Lemma acc_rel_agree h h' raw' acc pacc :
  agree h h' -> length h <= sl_blk raw' -> shares_rel h acc pacc -> acc_rel h' raw' acc pacc.
Proof.
  intros AG PR ACC. eapply Forall2_impl_; [|exact ACC]. intros s sh (W & R).
  assert (SB : sl_blk s < length h) by apply W.
  split; [eapply agree_wf; eassumption|]. split; [lia|].
  rewrite <- R. apply agree_read; assumption.
Qed.

Lemma mread_chunk h data left chunk :
  mslice2 data 0 left = Ok chunk -> left <= sl_len data ->
  mread_bytes h chunk = firstn left (mread_bytes h data).
Proof.
  intros E L. rewrite (mread_mslice2 h data 0 left chunk E L), skipn_O, Nat.sub_0_r. reflexivity.
Qed.

Lemma sparse_write_loop_mem_refines g h0 ns ver : forall fuel st b pb data acc pacc,
  agree h0 (st_heap st) -> sl_blk ns < length h0 -> wf_slice h0 data ->
  length h0 <= sl_blk (mbd_raw b) -> bld_rel (st_heap st) b pb ->
  acc_rel (st_heap st) (mbd_raw b) acc pacc ->
  forall r, r = sparse_write_loop_mem g fuel ns ver b data acc st ->
  agree h0 (st_heap (fst r)) /\
  outcome_rel (shares_rel (st_heap (fst r))) (snd r)
    (sparse_write_loop fuel (mread_bytes h0 ns) ver pb (mread_bytes h0 data) pacc).
Proof.
  induction fuel as [|f IH]; intros st b pb data acc pacc AG BN WD PR BR ACC r RE.
  { subst r. cbn. split; [exact AG|exact I]. }
  cbn [sparse_write_loop_mem sparse_write_loop] in *.
  pose proof (bld_rel_len _ _ _ BR) as LR.
  assert (LDATA : length (mread_bytes h0 data) = sl_len data) by (apply length_mread; exact WD).
  assert (RDATA : mread_bytes (st_heap st) data = mread_bytes h0 data).
  { apply agree_read; [exact AG|apply WD]. }
  set (pdata := mread_bytes h0 data) in *.
  unfold add_data_mem in RE. unfold sb_add_data, sb_available. rewrite LDATA, <- LR.
  set (left := share_size - sl_len (mbd_raw b)) in *.
  destruct (Nat.leb (sl_len data) left) eqn:FITS.
  - (* the rest of the data fits: pad and build the last share *)
    destruct (mappend_rstep g (mbd_raw b) data st (br_wf _ _ _ BR)) as (st1 & r1 & EQ1 & RS1).
    rewrite mbind_assoc, (mbind_ok _ _ _ _ _ EQ1) in RE. rewrite mbind_mret in RE. cbn [fst snd] in RE.
    rewrite (br_raw _ _ _ BR), RDATA in RS1.
    unfold zero_pad_mem in RE. cbn [mbd_with_raw mbd_raw] in RE.
    assert (W1 : wf_slice (st_heap st1) r1) by apply RS1.
    destruct (mappend_bytes_rstep g r1 (zeros (share_size - sl_len r1)) st1 W1) as (st2 & r2 & EQ2 & RS2).
    rewrite mbind_assoc, (mbind_ok _ _ _ _ _ EQ2) in RE. rewrite !mbind_mret in RE.
    assert (C1 : mread_bytes (st_heap st1) r1 = sb_raw pb ++ pdata) by apply RS1.
    assert (L1 : sl_len r1 = length (sb_raw pb ++ pdata)).
    { rewrite <- C1. symmetry. apply length_mread. exact W1. }
    rewrite C1, L1 in RS2.
    pose proof (rstep_trans _ _ _ _ _ _ _ _ RS1 RS2) as RS.
    destruct (inv_rstep h0 st st2 _ _ _ acc pacc AG PR ACC RS) as (AG2 & PR2 & ACC2).
    destruct RS as (_ & _ & _ & W2 & C2).
    unfold build_mem in RE. cbn [mbd_with_raw mbd_raw] in RE.
    cbn [fst snd sb_zero_pad sb_with_raw sb_raw]. unfold sb_build, wf_shareb. cbn [sb_with_raw sb_raw].
    assert (L2 : sl_len r2 = length ((sb_raw pb ++ pdata) ++ zeros (share_size - length (sb_raw pb ++ pdata)))).
    { rewrite <- C2. symmetry. apply length_mread. exact W2. }
    rewrite <- L2.
    destruct (Nat.eqb (sl_len r2) share_size) eqn:SZ.
    + rewrite mbind_mret in RE. subst r. cbn [fst snd bind outcome_rel mret]. split; [exact AG2|].
      apply Forall2_app; [exact (acc_rel_shares _ _ _ _ ACC2)|].
      constructor; [split; [exact W2|exact C2]|constructor].
    + rewrite mbind_mlift in RE. subst r. cbn [fst snd bind outcome_rel]. split; [exact AG2|exact I].
  - (* a full share and a leftover: build, start the next builder, go on *)
    apply Nat.leb_gt in FITS.
    assert (WL : sl_len data <= sl_cap data) by apply WD.
    assert (ECH : mslice2 data 0 left = Ok (mk_slice (sl_blk data) (sl_off data + 0) (left - 0) (sl_cap data - 0)))
      by (apply mslice2_ok; lia).
    set (chunk := mk_slice _ _ _ _) in ECH.
    assert (ERS : mslice2 data left (sl_len data) =
                  Ok (mk_slice (sl_blk data) (sl_off data + left) (sl_len data - left) (sl_cap data - left)))
      by (apply mslice2_ok; lia).
    set (rest := mk_slice _ _ _ _) in ERS.
    rewrite !mbind_assoc, mbind_mlift, ECH in RE.
    assert (RCH : mread_bytes (st_heap st) chunk = firstn left pdata).
    { rewrite (mread_chunk (st_heap st) data left chunk ECH) by lia. rewrite RDATA. reflexivity. }
    assert (RRS : mread_bytes h0 rest = skipn left pdata).
    { apply mread_mslice2_from. exact ERS. }
    assert (WRS : wf_slice h0 rest) by (eapply wf_mslice2; eassumption).
    clearbody chunk rest.
    destruct (mappend_rstep g (mbd_raw b) chunk st (br_wf _ _ _ BR)) as (st1 & r1 & EQ1 & RS1).
    rewrite ?mbind_assoc, (mbind_ok _ _ _ _ _ EQ1) in RE. rewrite ?mbind_assoc, mbind_mlift, ERS, !mbind_mret in RE.
    cbn [fst snd] in RE. rewrite mbind_mret in RE. rewrite (br_raw _ _ _ BR), RCH in RS1.
    destruct (inv_rstep h0 st st1 _ _ _ acc pacc AG PR ACC RS1) as (AG1 & PR1 & ACC1).
    destruct RS1 as (_ & _ & _ & W1 & C1).
    unfold build_mem in RE. cbn [mbd_with_raw mbd_raw] in RE.
    cbn [fst snd sb_with_raw sb_raw]. unfold sb_build, wf_shareb. cbn [sb_with_raw sb_raw].
    assert (L1 : sl_len r1 = length (sb_raw pb ++ firstn left pdata)).
    { rewrite <- C1. symmetry. apply length_mread. exact W1. }
    rewrite <- L1.
    destruct (Nat.eqb (sl_len r1) share_size) eqn:SZ.
    2:{ rewrite mbind_mlift in RE. subst r. cbn [fst snd bind outcome_rel]. split; [exact AG1|exact I]. }
    rewrite mbind_mret in RE. cbn [bind].
    destruct (new_builder_mem_spec g h0 ns ver false st1 AG1 BN _ eq_refl) as [AGN RELN].
    destruct (new_builder_mem g ns ver false st1) as [st2 onb] eqn:EQN. cbn [fst snd] in AGN, RELN.
    destruct onb as [nb| |], (new_builder (mread_bytes h0 ns) ver false) as [pnb| |];
      cbn [outcome_rel] in RELN; try contradiction; cbn [bind].
    + destruct RELN as [BRN PRN].
      rewrite (mbind_ok _ _ _ _ _ EQN) in RE.
      assert (AG2 : agree h0 (st_heap st2)) by (eapply agree_trans; eassumption).
      assert (PR2 : length h0 <= sl_blk (mbd_raw nb)).
      { destruct AG1 as [LE1 _]. lia. }
      assert (ACC2 : acc_rel (st_heap st2) (mbd_raw nb) (acc ++ [r1]) (pacc ++ [sb_raw pb ++ firstn left pdata])).
      { eapply acc_rel_agree; [exact AGN|exact PRN|].
        apply Forall2_app; [exact (acc_rel_shares _ _ _ _ ACC1)|].
        constructor; [split; [exact W1|exact C1]|constructor]. }
      rewrite <- RRS.
      exact (IH st2 nb pnb rest _ _ AG2 BN WRS PR2 BRN ACC2 r RE).
    + rewrite (mbind_err _ _ _ _ EQN) in RE. subst r. cbn [fst snd outcome_rel]. split; [|exact I].
      eapply agree_trans; eassumption.
    + rewrite (mbind_fault _ _ _ _ EQN) in RE. subst r. cbn [fst snd outcome_rel]. split; [|exact I].
      eapply agree_trans; eassumption.
Qed.

(* a blob given as slices of the heap: the data is a Go slice inside a block; the
   namespace and signer slices only have to point into existing blocks *)
Definition mblob_ok (h : heap) (bl : mblob) : Prop :=
  sl_blk (mb_ns bl) < length h /\ wf_slice h (mb_data bl) /\
  match mb_signer bl with Some s => sl_blk s < length h | None => True end.

Lemma signer_read h0 h bl : agree h0 h -> mblob_ok h0 bl ->
  mread_bytes h (mb_signer_slice bl) = signer_bytes (mblob_val h0 bl).
Proof.
  intros AG (_ & _ & WS). unfold mb_signer_slice, signer_bytes, mblob_val. cbn [b_signer].
  destruct (mb_signer bl) as [s|]; cbn [option_map].
  - apply agree_read; [exact AG|exact WS].
  - apply mread_nil.
Qed.

Lemma sparse_write_mem_refines_gen g h0 bl st :
  agree h0 (st_heap st) -> mblob_ok h0 bl ->
  forall r, r = sparse_write_mem g bl st ->
  agree h0 (st_heap (fst r)) /\
  outcome_rel (shares_rel (st_heap (fst r))) (snd r) (sparse_write (mblob_val h0 bl)).
Proof.
  intros AG OK r RE. pose proof OK as (WN & WD & WS).
  unfold sparse_write_mem in RE. unfold sparse_write. cbn [mblob_val b_ver b_ns b_data].
  destruct (negb (N.eqb (mb_ver bl) 0 || N.eqb (mb_ver bl) 1)).
  { subst r. cbn. split; [exact AG|exact I]. }
  assert (BN : sl_blk (mb_ns bl) < length h0) by exact WN.
  destruct (new_builder_mem_spec g h0 (mb_ns bl) (mb_ver bl) true st AG BN _ eq_refl) as [AGN RELN].
  destruct (new_builder_mem g (mb_ns bl) (mb_ver bl) true st) as [st1 ob] eqn:EQN. cbn [fst snd] in AGN, RELN.
  assert (AG1 : agree h0 (st_heap st1)) by (eapply agree_trans; eassumption).
  destruct ob as [b| |], (new_builder (mread_bytes h0 (mb_ns bl)) (mb_ver bl) true) as [pb| |] eqn:PNB;
    cbn [outcome_rel] in RELN; try contradiction; cbn [bind].
  2:{ rewrite (mbind_err _ _ _ _ EQN) in RE. subst r. cbn. split; [exact AG1|exact I]. }
  2:{ rewrite (mbind_fault _ _ _ _ EQN) in RE. subst r. cbn. split; [exact AG1|exact I]. }
  destruct RELN as [BR PRN]. rewrite (mbind_ok _ _ _ _ _ EQN) in RE.
  assert (PR1 : length h0 <= sl_blk (mbd_raw b)) by (destruct AG as [LE _]; lia).
  assert (LDATA : lenN (mread_bytes h0 (mb_data bl)) = N.of_nat (sl_len (mb_data bl))).
  { unfold lenN. rewrite length_mread by exact WD. reflexivity. }
  rewrite LDATA. set (n := N.of_nat (sl_len (mb_data bl))) in *.
  (* WriteSequenceLen *)
  unfold write_seq_len_mem in RE. unfold sb_write_seq_len.
  rewrite (br_first _ _ _ BR) in RE.
  destruct (negb (sb_first pb)).
  { rewrite mbind_mlift in RE. subst r. cbn. split; [exact AG1|exact I]. }
  pose proof (bld_rel_len _ _ _ BR) as LR.
  destruct (Nat.ltb (length (sb_raw pb)) 34) eqn:L34.
  { apply Nat.ltb_lt in L34. unfold mbind at 1 in RE. unfold mstore in RE.
    rewrite length_be32 in RE. rewrite (proj2 (Nat.leb_gt _ _)) in RE by lia.
    subst r. cbn. split; [exact AG1|exact I]. }
  apply Nat.ltb_ge in L34.
  destruct (mstore_rstep (mbd_raw b) 30 (be32 (u32 n)) st1 (br_wf _ _ _ BR)) as (st2 & EQS & RS2).
  { rewrite length_be32. lia. }
  rewrite (mbind_ok _ _ _ _ _ EQS) in RE. rewrite (br_raw _ _ _ BR) in RS2.
  destruct (inv_rstep h0 st1 st2 _ _ _ [] [] AG1 PR1 (Forall2_nil _) RS2) as (AG2 & PR2 & _).
  destruct RS2 as (_ & _ & _ & W2 & C2). cbn [bind].
  set (pb1 := sb_with_raw pb (set_at 30 (be32 (u32 n)) (sb_raw pb))).
  assert (BR2 : bld_rel (st_heap st2) b pb1).
  { destruct BR as [A B C D E]. constructor; cbn; auto. }
  clearbody pb1.
  (* WriteSigner *)
  assert (SG : exists st3 b2,
     (if N.eqb (mb_ver bl) 1 then write_signer_mem g b (mb_signer_slice bl) else mret b) st2 = (st3, Ok b2) /\
     agree h0 (st_heap st3) /\ length h0 <= sl_blk (mbd_raw b2) /\
     bld_rel (st_heap st3) b2
       (if N.eqb (mb_ver bl) 1 then sb_write_signer pb1 (signer_bytes (mblob_val h0 bl)) else pb1)).
  { destruct (N.eqb (mb_ver bl) 1).
    2:{ exists st2, b. split; [reflexivity|]. auto. }
    unfold write_signer_mem, sb_write_signer.
    rewrite (br_first _ _ _ BR2), (br_ver _ _ _ BR2).
    destruct (negb (sb_first pb1) || negb (N.eqb (sb_ver pb1) 1)).
    { exists st2, b. split; [reflexivity|]. auto. }
    destruct (mappend_rstep g (mbd_raw b) (mb_signer_slice bl) st2 (br_wf _ _ _ BR2)) as (st3 & r3 & EQ3 & RS3).
    rewrite (mbind_ok _ _ _ _ _ EQ3).
    rewrite (br_raw _ _ _ BR2), (signer_read h0 (st_heap st2) bl AG2 OK) in RS3.
    destruct (inv_rstep h0 st2 st3 _ _ _ [] [] AG2 PR2 (Forall2_nil _) RS3) as (AG3 & PR3 & _).
    destruct RS3 as (_ & _ & _ & W3 & C3).
    exists st3, (mbd_with_raw b r3). split; [reflexivity|]. split; [exact AG3|]. split; [exact PR3|].
    destruct BR2 as [A B C D E]. constructor; cbn; auto. }
  destruct SG as (st3 & b2 & EQ3 & AG3 & PR3 & BR3).
  rewrite (mbind_ok _ _ _ _ _ EQ3) in RE.
  rewrite <- (length_mread h0 (mb_data bl) WD) in RE.
  exact (sparse_write_loop_mem_refines g h0 (mb_ns bl) (mb_ver bl) _ st3 b2 _ (mb_data bl) [] []
           AG3 BN WD PR3 BR3 (Forall2_nil _) r RE).
Qed.

Lemma shares_rel_map h shs pshs : shares_rel h shs pshs -> map (mread_bytes h) shs = pshs.
Proof. induction 1 as [|s sh shs pshs [_ R] _ IH]; cbn [map]; [reflexivity|]. rewrite R, IH. reflexivity. Qed.

(* SparseShareSplitter.Write on a blob given as slices: the slices it appends to
   sss.shares denote, in the final heap, the shares of the pure model *)
Theorem sparse_write_mem_refines : forall g h bl,
  mblob_ok h bl ->
  let r := sparse_write_mem g bl (mk_st h []) in
  outcome_rel (fun shs pshs => map (mread_bytes (st_heap (fst r))) shs = pshs)
    (snd r) (sparse_write (mblob_val h bl)).
Proof.
  intros g h bl OK r.
  destruct (sparse_write_mem_refines_gen g h bl (mk_st h []) (agree_refl h) OK r eq_refl) as [_ REL].
  destruct (snd r) as [shs| |], (sparse_write (mblob_val h bl)) as [pshs| |]; cbn [outcome_rel] in *; auto.
  apply shares_rel_map. exact REL.
Qed.

(* ... which, for a blob NewBlob accepts, are the shares of the specification *)
Corollary sparse_write_mem_spec : forall g h bl,
  mblob_ok h bl -> blob_ok (mblob_val h bl) ->
  let r := sparse_write_mem g bl (mk_st h []) in
  exists shs, snd r = Ok shs /\
    map (mread_bytes (st_heap (fst r))) shs = blob_spec (mblob_val h bl).
Proof.
  intros g h bl OK BOK r. pose proof (sparse_write_mem_refines g h bl OK) as REL. cbv zeta in REL. fold r in REL.
  rewrite (sparse_write_spec _ BOK) in REL.
  destruct (snd r) as [shs| |]; cbn [outcome_rel] in REL; try contradiction.
  exists shs. split; [reflexivity|exact REL].
Qed.

(* ---- GenerateSubtreeRoots ---- *)

Lemma Forall2_length_ {A B} (R : A -> B -> Prop) l l' : Forall2 R l l' -> length l = length l'.
Proof. induction 1; cbn [length]; congruence. Qed.

Lemma Forall2_firstn_ {A B} (R : A -> B -> Prop) : forall n l l',
  Forall2 R l l' -> Forall2 R (firstn n l) (firstn n l').
Proof.
  induction n as [|n IH]; intros l l' F.
  - rewrite !firstn_O. constructor.
  - destruct F as [|x y l l' Rxy F]; [rewrite !firstn_nil; constructor|].
    rewrite !firstn_cons_S. constructor; [exact Rxy|apply IH; exact F].
Qed.

Lemma Forall2_skipn_ {A B} (R : A -> B -> Prop) : forall n l l',
  Forall2 R l l' -> Forall2 R (skipn n l) (skipn n l').
Proof.
  induction n as [|n IH]; intros l l' F.
  - rewrite !skipn_O. exact F.
  - destruct F as [|x y l l' Rxy F]; [rewrite !skipn_nil; constructor|].
    change (skipn (S n) (x :: l)) with (skipn n l). change (skipn (S n) (y :: l')) with (skipn n l').
    apply IH. exact F.
Qed.

Lemma leaf_sets_mem_rel h shares pshares : shares_rel h shares pshares -> forall sizes c,
  outcome_rel (Forall2 (shares_rel h)) (leaf_sets_mem shares c sizes) (leaf_sets pshares c sizes).
Proof.
  intros F. induction sizes as [|m tl IH]; intros c; cbn [leaf_sets_mem leaf_sets].
  - cbn. constructor.
  - unfold slice_list. unfold lenN. rewrite (Forall2_length_ _ _ _ F).
    destruct (_ && _); [|exact I]. cbn [bind].
    specialize (IH (c + m)%N).
    destruct (leaf_sets_mem shares (c + m) tl) as [rest| |], (leaf_sets pshares (c + m) tl) as [prest| |];
      cbn [outcome_rel bind] in *; auto.
    constructor; [|exact IH]. unfold takeN, dropN. apply Forall2_firstn_, Forall2_skipn_. exact F.
Qed.

Lemma shares_rel_agree h h' shs pshs : agree h h' -> shares_rel h shs pshs -> shares_rel h' shs pshs.
Proof.
  intros AG F. eapply Forall2_impl_; [|exact F]. intros s sh (W & R).
  split; [eapply agree_wf; eassumption|]. rewrite <- R. apply agree_read; [exact AG|apply W].
Qed.

(* the loop over the leaf sets *)
Lemma subtree_roots_loop_refines g H h1 ns : forall sets psets st,
  agree h1 (st_heap st) -> sl_blk ns < length h1 -> Forall2 (shares_rel h1) sets psets ->
  forall r, r = mmap (subtree_root_gen g true H ns) sets st ->
  agree h1 (st_heap (fst r)) /\
  snd r = map_outcome (fun set => nmt_root H (map (fun s => mread_bytes h1 ns ++ s) set)) psets.
Proof.
  induction sets as [|set tl IH]; intros psets st AG BN F r RE; inversion F as [|s' ps tl' ptl SR F']; subst.
  - cbn. split; [exact AG|reflexivity].
  - cbn [mmap map_outcome].
    assert (FL : Forall (fun l => sl_blk l < length h1) set).
    { clear -SR. induction SR as [|s sh shs pshs [W _] _ IH]; constructor; auto. apply W. }
    destruct (subtree_root_mem_refines g H h1 ns set st AG BN FL) as [AG1 R1].
    assert (EM : map (fun l => mread_bytes h1 ns ++ mread_bytes h1 l) set =
                 map (fun s => mread_bytes h1 ns ++ s) ps).
    { rewrite <- (shares_rel_map _ _ _ SR), map_map. reflexivity. }
    rewrite EM in R1. rewrite <- R1.
    destruct (subtree_root_gen g true H ns set st) as [st1 [root| |]] eqn:EQ; cbn [fst snd] in *.
    + rewrite (mbind_ok _ _ _ _ _ EQ).
      assert (AG1' : agree h1 (st_heap st1)) by (eapply agree_trans; eassumption).
      destruct (IH ptl st1 AG1' BN F' _ eq_refl) as [AG2 R2].
      destruct (mmap (subtree_root_gen g true H ns) tl st1) as [st2 [roots| |]] eqn:EQ2; cbn [fst snd] in *.
      * rewrite (mbind_ok _ _ _ _ _ EQ2). cbn [bind mret fst snd]. rewrite <- R2. split; [exact AG2|reflexivity].
      * rewrite (mbind_err _ _ _ _ EQ2). cbn [bind fst snd]. rewrite <- R2. split; [exact AG2|reflexivity].
      * rewrite (mbind_fault _ _ _ _ EQ2). cbn [bind fst snd]. rewrite <- R2. split; [exact AG2|reflexivity].
    + rewrite (mbind_err _ _ _ _ EQ). cbn [bind fst snd]. split; [eapply agree_trans; eassumption|reflexivity].
    + rewrite (mbind_fault _ _ _ _ EQ). cbn [bind fst snd]. split; [eapply agree_trans; eassumption|reflexivity].
Qed.

Lemma mblob_ok_agree h h' bl : agree h h' -> mblob_ok h bl -> mblob_ok h' bl.
Proof.
  intros AG (A & B & C). pose proof AG as [L _]. split; [lia|]. split; [eapply agree_wf; eassumption|].
  destruct (mb_signer bl); [lia|exact I].
Qed.

Lemma mblob_val_agree h h' bl : agree h h' -> mblob_ok h bl -> mblob_val h' bl = mblob_val h bl.
Proof.
  intros AG (A & B & C). unfold mblob_val. f_equal.
  - apply agree_read; assumption.
  - apply agree_read; [exact AG|apply B].
  - destruct (mb_signer bl) as [s|]; cbn [option_map]; [|reflexivity]. f_equal. apply agree_read; assumption.
Qed.

(* GenerateSubtreeRoots on a blob given as slices, from any state in which the blob's
   blocks are as in [h0]: those blocks stay as they are and the result is the pure one *)
Lemma subtree_roots_mem_refines_gen g H h0 bl thr st :
  agree h0 (st_heap st) -> mblob_ok h0 bl ->
  forall r, r = subtree_roots_mem g H bl thr st ->
  agree h0 (st_heap (fst r)) /\ snd r = subtree_roots H (mblob_val h0 bl) thr.
Proof.
  intros AG OK r RE.
  unfold subtree_roots_mem, subtree_roots_gen, sparse_write_gen in RE. unfold subtree_roots.
  destruct (sparse_write_mem_refines_gen g h0 bl st AG OK _ eq_refl) as [AG1 REL].
  destruct (sparse_write_mem g bl st) as [st1 oshs] eqn:EQW. cbn [fst snd] in AG1, REL.
  destruct oshs as [shs| |], (sparse_write (mblob_val h0 bl)) as [pshs| |];
    cbn [outcome_rel] in REL; try contradiction; cbn [bind].
  2:{ rewrite (mbind_err _ _ _ _ EQW) in RE. subst r. split; [exact AG1|reflexivity]. }
  2:{ rewrite (mbind_fault _ _ _ _ EQW) in RE. subst r. split; [exact AG1|reflexivity]. }
  rewrite (mbind_ok _ _ _ _ _ EQW) in RE.
  destruct (N.eqb thr 0); [subst r; split; [exact AG1|reflexivity]|].
  assert (LS : lenN shs = lenN pshs) by (unfold lenN; rewrite (Forall2_length_ _ _ _ REL); reflexivity).
  rewrite LS in RE. rewrite mbind_mlift in RE.
  pose proof (leaf_sets_mem_rel _ _ _ REL (mmr_sizes (lenN pshs) (subtree_width (lenN pshs) thr)) 0%N) as LSR.
  destruct (leaf_sets_mem shs 0 _) as [sets| |], (leaf_sets pshs 0 _) as [psets| |];
    cbn [outcome_rel] in LSR; try contradiction; cbn [bind];
    try (subst r; split; [exact AG1|reflexivity]).
  assert (BN1 : sl_blk (mb_ns bl) < length (st_heap st1)).
  { destruct OK as (BN & _). destruct AG1 as [LE _]. lia. }
  destruct (subtree_roots_loop_refines g H (st_heap st1) (mb_ns bl) sets psets st1 (agree_refl _) BN1 LSR r RE)
    as [AG2 R2].
  split; [eapply agree_trans; eassumption|].
  rewrite R2. cbn [mblob_val b_ns].
  rewrite (agree_read h0 (st_heap st1) (mb_ns bl) AG1 (proj1 OK)). reflexivity.
Qed.

Theorem subtree_roots_mem_refines : forall g H h bl thr,
  mblob_ok h bl ->
  snd (subtree_roots_mem g H bl thr (mk_st h [])) = subtree_roots H (mblob_val h bl) thr.
Proof.
  intros g H h bl thr OK.
  exact (proj2 (subtree_roots_mem_refines_gen g H h bl thr (mk_st h []) (agree_refl h) OK _ eq_refl)).
Qed.

(* ---- ParseBlobs returning the blobs as they sit in memory ---- *)

Lemma new_blob_ok_eq ns d ver sg b : new_blob ns d ver sg = Ok b -> b = mk_blob ns d ver sg.
Proof.
  unfold new_blob. destruct d as [|d0 d']; [discriminate|]. destruct ns as [|n0 ns']; [discriminate|].
  destruct (negb _); [discriminate|].
  destruct (N.eqb ver 0).
  - destruct sg; [discriminate|]. intros K; inversion K; reflexivity.
  - destruct (N.eqb ver 1); [|discriminate]. destruct sg as [s|]; [|discriminate].
    destruct (Nat.eqb _ _); [|discriminate]. intros K; inversion K; reflexivity.
Qed.

Lemma finish_mseq_view_refines h0 st q p :
  firstn (length h0) (st_heap st) = h0 ->
  seq_rel (length h0) h0 (st_heap st) q p ->
  st_heap (fst (finish_mseq_view q st)) = st_heap st /\
  outcome_rel (fun mb b => mblob_ok (st_heap st) mb /\ mblob_val (st_heap st) mb = b)
    (snd (finish_mseq_view q st)) (finish_pseq p).
Proof.
  intros EH [NB NS VER LEN SG WF FR DATA].
  assert (EH' : firstn (length h0) (st_heap st) = firstn (length h0) h0)
    by (rewrite EH; symmetry; apply firstn_all).
  assert (LN : length h0 <= length (st_heap st)).
  { rewrite <- EH at 1. rewrite firstn_length. lia. }
  unfold finish_mseq_view, finish_pseq.
  assert (LD : lenN (q_data p) = N.of_nat (sl_len (m_data q))).
  { unfold lenN. rewrite <- DATA, length_mread by assumption. reflexivity. }
  rewrite LD, <- LEN.
  destruct (N.ltb (N.of_nat (sl_len (m_data q))) (m_len q)) eqn:LT.
  { cbn. split; [reflexivity|exact I]. }
  apply N.ltb_ge in LT.
  assert (LE : N.to_nat (m_len q) <= sl_len (m_data q)) by lia.
  pose proof WF as (WB & WL & WC).
  assert (ED : mslice2 (m_data q) 0 (N.to_nat (m_len q)) =
               Ok (mk_slice (sl_blk (m_data q)) (sl_off (m_data q) + 0) (N.to_nat (m_len q) - 0)
                            (sl_cap (m_data q) - 0))) by (apply mslice2_ok; lia).
  set (d := mk_slice _ _ _ _) in ED.
  rewrite mbind_mlift, ED.
  unfold slice_to. rewrite LD. rewrite (proj2 (N.leb_le _ _) LT). cbn [bind].
  assert (RNS : mread_bytes (st_heap st) (m_ns q) = q_ns p).
  { rewrite <- NS. apply mread_same_block. eapply hblock_firstn; eassumption. }
  assert (RD : mread_bytes (st_heap st) d = takeN (m_len q) (q_data p)).
  { rewrite (mread_mslice2 (st_heap st) (m_data q) 0 (N.to_nat (m_len q)) d ED) by lia.
    rewrite skipn_O, Nat.sub_0_r, DATA. reflexivity. }
  assert (WFD : wf_slice (st_heap st) d) by (eapply wf_mslice2; eassumption).
  clearbody d.
  assert (RSG : option_map (mread_bytes (st_heap st)) (m_signer q) = q_signer p /\
                match m_signer q with Some s => sl_blk s < length (st_heap st) | None => True end).
  { destruct (m_signer q) as [s|], (q_signer p) as [b|]; try contradiction; cbn [option_map]; auto.
    destruct SG as [SB SR]. split; [|lia]. f_equal. rewrite <- SR.
    apply mread_same_block. eapply hblock_firstn; eassumption. }
  destruct RSG as [RSG BSG].
  assert (RO : forall st0, st_heap st0 = st_heap st ->
            exists st1, st_heap st1 = st_heap st /\
              mread_opt (m_signer q) st0 = (st1, Ok (q_signer p))).
  { intros st0 E0. rewrite <- RSG. destruct (m_signer q) as [s|]; cbn [mread_opt option_map].
    - eexists. split; [|unfold mbind, mread, mret; cbn [fst snd]; rewrite E0; reflexivity]. exact E0.
    - exists st0. split; [exact E0|reflexivity]. }
  rewrite !mbind_mread. cbn [log_read log_acc st_heap]. rewrite RNS, RD.
  destruct (RO (log_read d (log_read (m_ns q) st)) eq_refl) as (st1 & E1 & EQ1).
  rewrite (mbind_ok _ _ _ _ _ EQ1), mbind_mlift, VER.
  destruct (new_blob (q_ns p) (takeN (m_len q) (q_data p)) (q_ver p) (q_signer p)) as [b| |] eqn:NBE;
    try (cbn [fst snd outcome_rel]; split; [exact E1|exact I]).
  cbn [mret fst snd outcome_rel]. split; [exact E1|]. split.
  - split; [cbn [mb_ns]; lia|]. split; [exact WFD|exact BSG].
  - rewrite (new_blob_ok_eq _ _ _ _ _ NBE). unfold mblob_val. cbn [mb_ns mb_data mb_ver mb_signer].
    rewrite RNS, RD, RSG. reflexivity.
Qed.

Definition mblob_rel (h : heap) (mb : mblob) (b : blob) : Prop := mblob_ok h mb /\ mblob_val h mb = b.

Lemma mmap_finish_view_refines h0 : forall seqs pseqs st,
  firstn (length h0) (st_heap st) = h0 ->
  Forall2 (seq_rel (length h0) h0 (st_heap st)) seqs pseqs ->
  st_heap (fst (mmap finish_mseq_view seqs st)) = st_heap st /\
  outcome_rel (Forall2 (mblob_rel (st_heap st)))
    (snd (mmap finish_mseq_view seqs st)) (map_outcome finish_pseq pseqs).
Proof.
  induction seqs as [|q seqs IH]; intros pseqs st EH F; inversion F as [|q' p seqs' pseqs' QP F']; subst.
  - cbn. split; [reflexivity|constructor].
  - cbn [mmap map_outcome].
    destruct (finish_mseq_view_refines h0 st q p EH QP) as [H1 R1].
    destruct (finish_mseq_view q st) as [st1 o1] eqn:EQ1. cbn [fst snd] in *.
    destruct o1 as [mb| |], (finish_pseq p) as [b| |]; cbn [outcome_rel] in R1; try contradiction; cbn [bind].
    2:{ rewrite (mbind_err _ _ _ _ EQ1). cbn. split; [exact H1|exact I]. }
    2:{ rewrite (mbind_fault _ _ _ _ EQ1). cbn. split; [exact H1|exact I]. }
    rewrite (mbind_ok _ _ _ _ _ EQ1).
    destruct (IH pseqs' st1) as [H2 R2].
    { rewrite H1. exact EH. }
    { rewrite H1. exact F'. }
    rewrite H1 in R2.
    destruct (mmap finish_mseq_view seqs st1) as [st2 o2] eqn:EQ2. cbn [fst snd] in *.
    destruct o2 as [mbs| |], (map_outcome finish_pseq pseqs') as [bs| |];
      cbn [outcome_rel] in R2; try contradiction; cbn [bind].
    + rewrite (mbind_ok _ _ _ _ _ EQ2). cbn [mret fst snd outcome_rel]. split; [congruence|].
      constructor; assumption.
    + rewrite (mbind_err _ _ _ _ EQ2). cbn. split; [congruence|exact I].
    + rewrite (mbind_fault _ _ _ _ EQ2). cbn. split; [congruence|exact I].
Qed.

(* ParseBlobs as views: the input blocks are unchanged, and the returned slices denote,
   in the final heap, the blobs of the pure parser: the namespace and signer slices point
   into the INPUT blocks (with whatever capacity the share views had), the data slice is
   a Go slice of a block allocated by the parser *)
Theorem parse_blobs_views_refines : forall g h views,
  Forall (view_ok h) views ->
  let r := parse_blobs_views_mem g views (mk_st h []) in
  agree h (st_heap (fst r)) /\
  outcome_rel (Forall2 (mblob_rel (st_heap (fst r)))) (snd r) (parse_blobs (map (mread_bytes h) views)).
Proof.
  intros g h views FV r. subst r. unfold parse_blobs_views_mem, parse_blobs.
  destruct (parse_sparse_loop_refines g h views (mk_st h []) [] [] (firstn_all h) FV
              (Forall2_nil _) (NoDup_nil _)) as [EH SR].
  destruct (parse_sparse_loop_mem g true views [] (mk_st h [])) as [st1 o] eqn:EQ. cbn [fst snd] in *.
  assert (AG1 : agree h (st_heap st1)).
  { apply agree_firstn; [rewrite EH; symmetry; apply firstn_all|].
    rewrite <- EH at 1. rewrite firstn_length. lia. }
  destruct o as [seqs| |], (parse_sparse_loop (map (mread_bytes h) views) []) as [pseqs| |];
    cbn [step_rel] in SR; try contradiction; cbn [bind].
  2:{ rewrite (mbind_err _ _ _ _ EQ). cbn. split; [exact AG1|exact I]. }
  2:{ rewrite (mbind_fault _ _ _ _ EQ). cbn. split; [exact AG1|exact I]. }
  rewrite (mbind_ok _ _ _ _ _ EQ). destruct SR as [F _].
  destruct (mmap_finish_view_refines h (rev seqs) (rev pseqs) st1 EH (Forall2_rev_ _ _ _ F)) as [HE R].
  rewrite HE. split; [exact AG1|exact R].
Qed.

(* ---- the compositions ---- *)

Lemma mmap_blobs_refines {A B} (f : mblob -> M A) (pf : blob -> outcome B) (R : heap -> A -> B -> Prop) h1 :
  (forall h h' a b, agree h h' -> R h a b -> R h' a b) ->
  (forall bl st r, agree h1 (st_heap st) -> mblob_ok h1 bl -> r = f bl st ->
     agree (st_heap st) (st_heap (fst r)) /\
     outcome_rel (R (st_heap (fst r))) (snd r) (pf (mblob_val h1 bl))) ->
  forall blobs pblobs st, agree h1 (st_heap st) -> Forall2 (mblob_rel h1) blobs pblobs ->
  forall r, r = mmap f blobs st ->
  agree (st_heap st) (st_heap (fst r)) /\
  outcome_rel (Forall2 (R (st_heap (fst r)))) (snd r) (map_outcome pf pblobs).
Proof.
  intros MONO STEP. induction blobs as [|bl tl IH]; intros pblobs st AG F;
    inversion F as [|bl' b tl' ptl [OK VAL] F']; subst; intros r RE.
  - subst r. cbn. split; [apply agree_refl|constructor].
  - cbn [mmap map_outcome] in *.
    destruct (STEP bl st _ AG OK eq_refl) as [AG1 R1].
    destruct (f bl st) as [st1 o1] eqn:EQ1. cbn [fst snd] in *.
    destruct o1 as [a| |], (pf (mblob_val h1 bl)) as [pb| |]; cbn [outcome_rel] in R1; try contradiction; cbn [bind].
    2:{ rewrite (mbind_err _ _ _ _ EQ1) in RE. subst r. cbn. split; [exact AG1|exact I]. }
    2:{ rewrite (mbind_fault _ _ _ _ EQ1) in RE. subst r. cbn. split; [exact AG1|exact I]. }
    rewrite (mbind_ok _ _ _ _ _ EQ1) in RE.
    assert (AG1' : agree h1 (st_heap st1)) by (eapply agree_trans; eassumption).
    destruct (IH ptl st1 AG1' F' _ eq_refl) as [AG2 R2].
    destruct (mmap f tl st1) as [st2 o2] eqn:EQ2. cbn [fst snd] in *.
    destruct o2 as [l| |], (map_outcome pf ptl) as [pl| |]; cbn [outcome_rel] in R2; try contradiction; cbn [bind].
    + rewrite (mbind_ok _ _ _ _ _ EQ2) in RE. subst r. cbn [mret fst snd outcome_rel].
      split; [eapply agree_trans; eassumption|]. constructor; [|exact R2].
      eapply MONO; eassumption.
    + rewrite (mbind_err _ _ _ _ EQ2) in RE. subst r. cbn. split; [eapply agree_trans; eassumption|exact I].
    + rewrite (mbind_fault _ _ _ _ EQ2) in RE. subst r. cbn. split; [eapply agree_trans; eassumption|exact I].
Qed.

Lemma outcome_rel_eq {A} (o p : outcome (list A)) : outcome_rel (Forall2 eq) o p -> o = p.
Proof.
  destruct o as [l| |], p as [l'| |]; cbn; try contradiction; auto.
  intros F. f_equal. induction F; congruence.
Qed.

Lemma outcome_rel_eq1 {A} (o p : outcome A) : o = p -> outcome_rel eq o p.
Proof. intros ->. destruct p; cbn; auto. Qed.

(* ParseBlobs on share views of the heap, then GenerateSubtreeRoots on every PARSED blob
   (namespace = view with the capacity of its first share): the result is the pure one *)
Theorem parse_then_commit_mem_refines : forall g H thr h views,
  Forall (view_ok h) views ->
  snd (parse_then_commit_mem g H thr views (mk_st h [])) =
  (do blobs <- parse_blobs (map (mread_bytes h) views);
   map_outcome (fun b => subtree_roots H b thr) blobs).
Proof.
  intros g H thr h views FV. unfold parse_then_commit_mem, parse_then_commit_gen.
  destruct (parse_blobs_views_refines g h views FV) as [AG1 REL]. cbv zeta in *.
  destruct (parse_blobs_views_mem g views (mk_st h [])) as [st1 o] eqn:EQ. cbn [fst snd] in *.
  destruct o as [blobs| |], (parse_blobs (map (mread_bytes h) views)) as [pblobs| |];
    cbn [outcome_rel] in REL; try contradiction; cbn [bind].
  2:{ rewrite (mbind_err _ _ _ _ EQ). reflexivity. }
  2:{ rewrite (mbind_fault _ _ _ _ EQ). reflexivity. }
  rewrite (mbind_ok _ _ _ _ _ EQ).
  apply outcome_rel_eq.
  refine (proj2 (mmap_blobs_refines (fun b => subtree_roots_gen g true true H b thr)
            (fun b => subtree_roots H b thr) (fun _ => eq) (st_heap st1) _ _ blobs pblobs st1
            (agree_refl _) REL _ eq_refl)).
  - intros; assumption.
  - intros bl st r AG OK RE. split.
    + subst r. exact (ro_agree _ _ st (ro_subtree_roots_mem (length (st_heap st)) g H bl thr)).
    + apply outcome_rel_eq1.
      exact (proj2 (subtree_roots_mem_refines_gen g H (st_heap st1) bl thr st AG OK r RE)).
Qed.

(* ParseBlobs, then SparseShareSplitter.Write on every parsed blob (signer = view
   share.data[34:54] with spare capacity): the written shares are those of the pure writer *)
Theorem parse_then_write_mem_refines : forall g h views,
  Forall (view_ok h) views ->
  let r := parse_then_write_mem g views (mk_st h []) in
  outcome_rel (fun l pl => map (map (mread_bytes (st_heap (fst r)))) l = pl) (snd r)
    (do blobs <- parse_blobs (map (mread_bytes h) views); map_outcome sparse_write blobs).
Proof.
  intros g h views FV r. subst r. unfold parse_then_write_mem, parse_then_write_gen.
  destruct (parse_blobs_views_refines g h views FV) as [AG1 REL]. cbv zeta in *.
  destruct (parse_blobs_views_mem g views (mk_st h [])) as [st1 o] eqn:EQ. cbn [fst snd] in *.
  destruct o as [blobs| |], (parse_blobs (map (mread_bytes h) views)) as [pblobs| |];
    cbn [outcome_rel] in REL; try contradiction; cbn [bind].
  2:{ rewrite (mbind_err _ _ _ _ EQ). exact I. }
  2:{ rewrite (mbind_fault _ _ _ _ EQ). exact I. }
  rewrite (mbind_ok _ _ _ _ _ EQ).
  pose proof (proj2 (mmap_blobs_refines (sparse_write_gen g true) sparse_write shares_rel (st_heap st1)
            shares_rel_agree
            (fun bl st r AG OK RE =>
               conj (eq_ind_r (fun r => agree (st_heap st) (st_heap (fst r)))
                              (ro_agree _ _ st (ro_sparse_write_mem (length (st_heap st)) g bl)) RE)
                    (proj2 (sparse_write_mem_refines_gen g (st_heap st1) bl st AG OK r RE)))
            blobs pblobs st1 (agree_refl _) REL _ eq_refl)) as R.
  destruct (snd (mmap (sparse_write_gen g true) blobs st1)) as [l| |], (map_outcome sparse_write pblobs) as [pl| |];
    cbn [outcome_rel] in *; auto.
  clear -R. induction R as [|x y l pl Rxy _ IH]; cbn [map]; [reflexivity|].
  rewrite (shares_rel_map _ _ _ Rxy), IH. reflexivity.
Qed.

(* ================================================================== *)
(* 3. The `append(view, ...)` variants modify their input              *)
(* ================================================================== *)

(* a 600-byte blob = 2 shares, laid out back to back in ONE 1024-byte block; the first
   share view has the rest of the block as capacity, as in a flattened square *)
Definition cm_ns : bytes := zeros 28 ++ [Byte.x07].
Definition cm_blob : blob := mk_blob cm_ns (repeat Byte.x41 600) 0%N None.
Definition cm_shares : list share := match blob_to_shares cm_blob with Ok l => l | _ => [] end.
Definition cm_arena : bytes := concat cm_shares.
Definition cm_views : list slice := [mk_slice 0 0 512 1024; mk_slice 0 512 512 512].

Lemma cm_views_ok : Forall (view_ok [cm_arena]) cm_views.
Proof. apply views_okb_ok. vm_compute. reflexivity. Qed.

Lemma cm_parse : parse_blobs (map (mread_bytes [cm_arena]) cm_views) = Ok [cm_blob].
Proof. vm_compute. reflexivity. Qed.

Lemma heap_changed (h h' : heap) k : first_diff 0 (hblock h 0) (hblock h' 0) = Some k ->
  0 < length h -> firstn (length h) h' <> h.
Proof.
  intros D L K. rewrite (hblock_firstn (length h) h h' 0) in D.
  - rewrite first_diff_refl in D. discriminate D.
  - rewrite K. symmetry. apply firstn_all.
  - exact L.
Qed.

(* the leaf construction alone: namespace = the view share.data[:29] of the first share
   (capacity 1024), leaf = the second share: the 512 leaf bytes land at offset 29 *)
Theorem leaf_build_mem_legacy_refuted :
  exists (h : heap) (ns leaf : slice),
    wf_slice h ns /\ wf_slice h leaf /\ sl_len ns = 29 /\ sl_len leaf = 512 /\
    let st' := fst (leaf_build_mem_legacy grow_double ns leaf (mk_st h [])) in
    first_diff 0 (hblock h 0) (hblock (st_heap st') 0) = Some 29 /\
    firstn (length h) (st_heap st') <> h /\
    log_writes_below (length h) (st_log st') = true /\
    (* the leaf it returns is nevertheless the right one ... *)
    (exists d, snd (leaf_build_mem_legacy grow_double ns leaf (mk_st h [])) = Ok d /\
               mread_bytes (st_heap st') d = mread_bytes h ns ++ mread_bytes h leaf) /\
    (* ... and the three-line construction leaves the block alone *)
    firstn (length h) (st_heap (fst (leaf_build_mem grow_double ns leaf (mk_st h [])))) = h.
Proof.
  exists [cm_arena], (mk_slice 0 0 29 1024), (mk_slice 0 512 512 512).
  split; [vm_compute; repeat split; lia|]. split; [vm_compute; repeat split; lia|].
  split; [reflexivity|]. split; [reflexivity|]. cbv zeta.
  assert (D : first_diff 0 (hblock [cm_arena] 0)
     (hblock (st_heap (fst (leaf_build_mem_legacy grow_double (mk_slice 0 0 29 1024) (mk_slice 0 512 512 512)
                              (mk_st [cm_arena] [])))) 0) = Some 29) by (vm_compute; reflexivity).
  split; [exact D|]. split; [eapply heap_changed; [exact D|cbn; lia]|].
  split; [vm_compute; reflexivity|]. split.
  - eexists. split; vm_compute; reflexivity.
  - apply leaf_build_mem_readonly.
Qed.

(* ParseBlobs on the two share views, then GenerateSubtreeRoots on the PARSED blob *)
Theorem subtree_roots_mem_legacy_refuted :
  exists (h : heap) (views : list slice) (thr : N),
    Forall (view_ok h) views /\
    let run := parse_then_commit_mem_legacy grow_double sha256 thr views (mk_st h []) in
    let st' := fst run in
    (* byte 29 of the pre-existing block (the info byte of the first share) is overwritten *)
    first_diff 0 (hblock h 0) (hblock (st_heap st') 0) = Some 29 /\
    firstn (length h) (st_heap st') <> h /\
    log_writes_below (length h) (st_log st') = true /\
    (* the subtree roots returned are nevertheless the right ones (nmt hashes inside Push) *)
    snd run = (do blobs <- parse_blobs (map (mread_bytes h) views);
               map_outcome (fun b => subtree_roots sha256 b thr) blobs) /\
    is_ok (snd run) = true /\
    (* the shares no longer parse to the blob they held *)
    parse_blobs (map (mread_bytes (st_heap st')) views) <> parse_blobs (map (mread_bytes h) views) /\
    (* while the current code leaves the block alone on the same input *)
    firstn (length h) (st_heap (fst (parse_then_commit_mem grow_double sha256 thr views (mk_st h [])))) = h.
Proof.
  exists [cm_arena], cm_views, 64%N. split; [exact cm_views_ok|]. cbv zeta.
  assert (D : first_diff 0 (hblock [cm_arena] 0)
     (hblock (st_heap (fst (parse_then_commit_mem_legacy grow_double sha256 64 cm_views (mk_st [cm_arena] [])))) 0)
     = Some 29) by (vm_compute; reflexivity).
  split; [exact D|]. split; [eapply heap_changed; [exact D|cbn; lia]|].
  split; [vm_compute; reflexivity|]. split; [vm_compute; reflexivity|]. split; [vm_compute; reflexivity|].
  split.
  - intros K.
    assert (E : match parse_blobs (map (mread_bytes (st_heap (fst (parse_then_commit_mem_legacy grow_double sha256 64
                                   cm_views (mk_st [cm_arena] []))))) cm_views),
                      parse_blobs (map (mread_bytes [cm_arena]) cm_views) with
                | Ok [a], Ok [b] => blob_eqb a b
                | Ok _, Ok _ => false
                | Err, Err => true | Fault, Fault => true
                | _, _ => false
                end = false) by (vm_compute; reflexivity).
    rewrite K, cm_parse in E. vm_compute in E. discriminate E.
  - apply parse_then_commit_mem_readonly.
Qed.

(* the writer: a 20-byte signer that is the head of a 100-byte buffer, followed by other
   data; the 50 data bytes are written behind it *)
Definition sw_heap : heap :=
  [repeat Byte.x53 20 ++ repeat Byte.xee 80; cm_ns; repeat Byte.x42 50].
Definition sw_blob : mblob :=
  mk_mblob (mk_slice 1 0 29 29) (mk_slice 2 0 50 50) 1%N (Some (mk_slice 0 0 20 100)).

Theorem sparse_write_mem_legacy_refuted :
  exists (h : heap) (bl : mblob),
    mblob_ok h bl /\ blob_ok (mblob_val h bl) /\
    let run := sparse_write_mem_legacy grow_double bl (mk_st h []) in
    let st' := fst run in
    (* the byte right behind the signer is overwritten *)
    first_diff 0 (hblock h 0) (hblock (st_heap st') 0) = Some 20 /\
    firstn (length h) (st_heap st') <> h /\
    log_writes_below (length h) (st_log st') = true /\
    (* the shares it returns are nevertheless the right ones *)
    outcome_rel (fun shs pshs => map (mread_bytes (st_heap st')) shs = pshs) (snd run)
      (sparse_write (mblob_val h bl)) /\
    is_ok (snd run) = true /\
    (* while Write with builder.WriteSigner leaves the buffer alone *)
    firstn (length h) (st_heap (fst (sparse_write_mem grow_double bl (mk_st h [])))) = h.
Proof.
  exists sw_heap, sw_blob.
  split; [vm_compute; repeat split; lia|].
  split.
  { unfold blob_ok. vm_compute. repeat split; try discriminate; try lia.
    right. split; [reflexivity|]. eexists. split; reflexivity. }
  cbv zeta.
  assert (D : first_diff 0 (hblock sw_heap 0)
     (hblock (st_heap (fst (sparse_write_mem_legacy grow_double sw_blob (mk_st sw_heap [])))) 0) = Some 20)
    by (vm_compute; reflexivity).
  split; [exact D|]. split; [eapply heap_changed; [exact D|cbn; lia]|].
  split; [vm_compute; reflexivity|]. split; [vm_compute; reflexivity|]. split; [vm_compute; reflexivity|].
  apply sparse_write_mem_readonly.
Qed.

(* and on a PARSED version 1 blob: its signer is share.data[34:54] with the rest of the
   arena as capacity; the blob data is written contiguously over the following share *)
Definition sg_blob : blob := mk_blob cm_ns (repeat Byte.x42 600) 1%N (Some (repeat Byte.x53 20)).
Definition sg_shares : list share := match blob_to_shares sg_blob with Ok l => l | _ => [] end.
Definition sg_arena : bytes := concat sg_shares.

Theorem parse_then_write_mem_legacy_refuted :
  exists (h : heap) (views : list slice),
    Forall (view_ok h) views /\
    let st' := fst (parse_then_write_mem_legacy grow_double views (mk_st h [])) in
    first_diff 0 (hblock h 0) (hblock (st_heap st') 0) = Some 512 /\
    firstn (length h) (st_heap st') <> h /\
    log_writes_below (length h) (st_log st') = true /\
    firstn (length h) (st_heap (fst (parse_then_write_mem grow_double views (mk_st h [])))) = h.
Proof.
  exists [sg_arena], cm_views. split; [apply views_okb_ok; vm_compute; reflexivity|]. cbv zeta.
  assert (D : first_diff 0 (hblock [sg_arena] 0)
     (hblock (st_heap (fst (parse_then_write_mem_legacy grow_double cm_views (mk_st [sg_arena] [])))) 0) = Some 512)
    by (vm_compute; reflexivity).
  split; [exact D|]. split; [eapply heap_changed; [exact D|cbn; lia]|].
  split; [vm_compute; reflexivity|]. apply parse_then_write_mem_readonly.
Qed.

(* ================================================================== *)
(* 4. Concurrent committers                                            *)
(* ================================================================== *)

(* "ParseBlobs, then commit" / "ParseBlobs, then re-write" as ONE atomic step of a thread
   (the interleaving theorem of MemProofs.v): the current code keeps the discipline for
   every heap, every views, every n0; the `append(view, ...)` variants do not. *)
Definition commit_step (g : nat -> nat -> nat) (fixed : bool) (H : bytes -> bytes) (thr : N)
           (views : list slice) : @tstep unit :=
  fun s => (fst (parse_then_commit_gen g fixed H thr views (fst s)), tt).

Definition write_step (g : nat -> nat -> nat) (fixed : bool) (views : list slice) : @tstep unit :=
  fun s => (fst (parse_then_write_gen g fixed views (fst s)), tt).

Lemma commit_step_disciplined : forall n0 g H thr views,
  disciplined (fun _ : unit => True) n0 (commit_step g true H thr views).
Proof.
  intros n0 g H thr views st l LN _. unfold commit_step. cbn [fst snd]. split; [|exact I].
  exact (proj1 (ro_parse_then_commit_mem n0 g H thr views st LN)).
Qed.

Lemma write_step_disciplined : forall n0 g views,
  disciplined (fun _ : unit => True) n0 (write_step g true views).
Proof.
  intros n0 g views st l LN _. unfold write_step. cbn [fst snd]. split; [|exact I].
  exact (proj1 (ro_parse_then_write_mem n0 g views st LN)).
Qed.

Lemma not_disciplined_witness (f : @tstep unit) (h : heap) k :
  first_diff 0 (hblock h 0) (hblock (st_heap (fst (f (mk_st h [], tt)))) 0) = Some k ->
  0 < length h -> ~ disciplined (fun _ : unit => True) (length h) f.
Proof.
  intros D L DI. destruct (DI (mk_st h []) tt (le_n _) I) as [(E & _) _]. cbn [st_heap] in E.
  rewrite (hblock_firstn (length h) h _ 0 E L) in D. rewrite first_diff_refl in D. discriminate D.
Qed.

Example commit_step_legacy_not_disciplined :
  ~ disciplined (fun _ : unit => True) 1 (commit_step grow_double false sha256 64 cm_views).
Proof.
  apply (not_disciplined_witness _ [cm_arena] 29); [vm_compute; reflexivity|cbn; lia].
Qed.

Example write_step_legacy_not_disciplined :
  ~ disciplined (fun _ : unit => True) 1 (write_step grow_double false cm_views).
Proof.
  apply (not_disciplined_witness _ [sg_arena] 512); [vm_compute; reflexivity|cbn; lia].
Qed.

(* ---- finer: the leaf loop as a thread, one atomic step per leaf (build + Push).
        The local state is the tree (with the retained leaf slices); no invariant on
        it is needed, because the retained slices are only ever READ. ---- *)

Definition sl_step (g : nat -> nat -> nat) (fixed : bool) (H : bytes -> bytes) (ns leaf : slice)
  : @tstep (outcome mtree) :=
  fun s =>
    match snd s with
    | Ok t => (mdo nsl <- leaf_build_gen g fixed ns leaf; tree_push_mem H t nsl) (fst s)
    | _ => s
    end.

Definition sl_thread (g : nat -> nat -> nat) (fixed : bool) (H : bytes -> bytes) (ns : slice)
           (leaves : list slice) : list (@tstep (outcome mtree)) :=
  map (sl_step g fixed H ns) leaves.

Definition sl_start : @tconf (outcome mtree) := mk_tconf [] [] (Ok mtree_empty).

Lemma sl_step_disciplined n0 g H ns leaf :
  disciplined (fun _ : outcome mtree => True) n0 (sl_step g true H ns leaf).
Proof.
  intros st l LN _. unfold sl_step. cbn [fst snd]. split; [|exact I].
  destruct l as [t| |]; try apply ext_refl.
  assert (R : ro n0 (fun _ => True) (mdo nsl <- leaf_build_gen g true ns leaf; tree_push_mem H t nsl)).
  { eapply ro_bind; [apply ro_true with (P := safe n0); apply ro_leaf_build_mem|].
    intros nsl _. apply ro_tree_push_mem. }
  exact (proj1 (R st LN)).
Qed.

Example sl_step_legacy_not_disciplined :
  ~ disciplined (fun _ : outcome mtree => True) 1
      (sl_step grow_double false sha256 (mk_slice 0 0 29 1024) (mk_slice 0 512 512 512)).
Proof.
  intros DI. destruct (DI (mk_st [cm_arena] []) (Ok mtree_empty) (le_n _) I) as [(E & _) _].
  cbn [st_heap] in E.
  assert (D : first_diff 0 (hblock [cm_arena] 0)
     (hblock (st_heap (fst (sl_step grow_double false sha256 (mk_slice 0 0 29 1024) (mk_slice 0 512 512 512)
                              (mk_st [cm_arena] [], Ok mtree_empty)))) 0) = Some 29) by (vm_compute; reflexivity).
  rewrite (hblock_firstn 1 [cm_arena] _ 0 E) in D by auto.
  rewrite first_diff_refl in D. discriminate D.
Qed.

Lemma sl_thread_ok n0 g H ns leaves :
  thread_ok (fun _ : outcome mtree => True) n0 (sl_thread g true H ns leaves, sl_start).
Proof.
  split; [|split; constructor].
  apply Forall_forall. intros f Hf. apply in_map_iff in Hf. destruct Hf as (leaf & <- & _).
  apply sl_step_disciplined.
Qed.

Lemma fold_sl_stuck g fixed H ns : forall leaves st (o : outcome mtree),
  (forall t, o <> Ok t) -> fold_steps (sl_thread g fixed H ns leaves) (st, o) = (st, o).
Proof.
  induction leaves as [|leaf tl IH]; intros st o NO; [reflexivity|].
  unfold fold_steps, sl_thread in *. cbn [map fold_left]. unfold sl_step at 2. cbn [fst snd].
  destruct o as [t| |]; [exfalso; apply (NO t); reflexivity| |]; apply IH; assumption.
Qed.

(* the thread computes exactly the loop *)
Lemma fold_sl_thread g fixed H ns : forall leaves st t,
  fold_steps (sl_thread g fixed H ns leaves) (st, Ok t) = subtree_leaves_gen g fixed H ns leaves t st.
Proof.
  induction leaves as [|leaf tl IH]; intros st t; [reflexivity|].
  cbn [subtree_leaves_gen]. rewrite <- mbind_assoc.
  unfold fold_steps, sl_thread in *. cbn [map fold_left]. unfold sl_step at 2. cbn [fst snd].
  set (m := mdo nsl <- leaf_build_gen g fixed ns leaf; tree_push_mem H t nsl).
  unfold mbind. destruct (m st) as [st1 [t'| |]].
  - apply IH.
  - apply (fold_sl_stuck g fixed H ns tl st1 Err). intros t0 K; discriminate K.
  - apply (fold_sl_stuck g fixed H ns tl st1 Fault). intros t0 K; discriminate K.
Qed.

(* N concurrent runs of the leaf loop over the same namespace and share slices, ANY
   interleaving of their per-leaf steps: the shared memory is unchanged, no two accesses
   of different runs conflict, and every run that has finished holds the tree (hashes,
   retained leaves) it would hold had it run alone *)
Theorem subtree_leaves_concurrent : forall g H h0 ns leaves n sched,
  let final := run_sched (length h0) sched (h0, repeat (sl_thread g true H ns leaves, sl_start) n) in
  fst final = h0 /\
  (forall i c, nth_error (snd final) i = Some ([], c) ->
     tc_loc c = snd (subtree_leaves_mem g H ns leaves mtree_empty (mk_st h0 []))) /\
  (forall i j ri ci rj cj a b,
     nth_error (snd final) i = Some (ri, ci) -> nth_error (snd final) j = Some (rj, cj) ->
     In a (tc_log ci) -> In b (tc_log cj) -> ~ conflict (length h0) i a j b).
Proof.
  intros g H h0 ns leaves n sched final.
  set (Inv := fun _ : outcome mtree => True).
  set (ths := repeat (sl_thread g true H ns leaves, sl_start) n) in *.
  assert (OK : Forall (thread_ok Inv (length h0)) ths).
  { apply Forall_forall. intros th Hth. apply repeat_spec in Hth. subst th. apply sl_thread_ok. }
  destruct (read_only_interleave Inv h0 ths sched OK) as (SH & LEN & _ & NC).
  subst final. split; [exact SH|]. split; [|exact NC].
  intros i c N.
  assert (N0 : nth_error ths i = Some (sl_thread g true H ns leaves, sl_start)).
  { assert (LT : i < length ths).
    { rewrite <- LEN. apply nth_error_Some. intros K.
      pose proof (eq_trans (eq_sym K) N) as X. discriminate X. }
    destruct (nth_error ths i) as [th|] eqn:E.
    - apply nth_error_In in E. apply repeat_spec in E. subst th. reflexivity.
    - apply nth_error_None in E. lia. }
  pose proof (read_only_interleave_complete Inv h0 ths sched i _ _ c OK N0 N) as RA.
  unfold sl_start in RA.
  rewrite (run_alone_direct Inv h0 (sl_thread g true H ns leaves) [] [] (Ok mtree_empty)
             (proj1 (sl_thread_ok _ g H ns leaves))) in RA by exact I.
  rewrite app_nil_r, fold_sl_thread in RA. cbv zeta in RA.
  inversion RA as [K]. reflexivity.
Qed.

(* ================================================================== *)
(* 5. Non-vacuity                                                      *)
(* ================================================================== *)

(* what ParseBlobs hands out for the two-share arena: the namespace slice is the first 29
   bytes of block 0 with capacity 1024 - it reaches over the rest of the first share and
   the whole second share - and the data is a slice of a block the parser allocated *)
Example parse_blobs_views_witness :
  let r := parse_blobs_views_mem grow_double cm_views (mk_st [cm_arena] []) in
  exists d, snd r = Ok [mk_mblob (mk_slice 0 0 29 1024) d 0%N None] /\
    1 <= sl_blk d /\ sl_len d = 600 /\
    Forall2 (mblob_rel (st_heap (fst r))) [mk_mblob (mk_slice 0 0 29 1024) d 0%N None] [cm_blob].
Proof.
  cbv zeta. eexists. split; [vm_compute; reflexivity|]. split; [cbn; lia|]. split; [reflexivity|].
  constructor; [|constructor]. split; [vm_compute; repeat split; lia|vm_compute; reflexivity].
Qed.

(* ParseBlobs then GenerateSubtreeRoots with the current code: it allocates, block 0 is
   unchanged, nothing is written below block 1, the roots are the pure ones *)
Example parse_then_commit_mem_witness :
  let r := parse_then_commit_mem grow_double sha256 64 cm_views (mk_st [cm_arena] []) in
  Forall (view_ok [cm_arena]) cm_views /\
  1 < length (st_heap (fst r)) /\
  firstn 1 (st_heap (fst r)) = [cm_arena] /\
  (exists roots, snd r = Ok [roots] /\ subtree_roots sha256 cm_blob 64 = Ok roots /\ length roots = 2) /\
  log_writes_below 1 (st_log (fst r)) = false /\
  existsb (fun a => match a_kind a with AW => true | AR => false end) (st_log (fst r)) = true.
Proof.
  cbv zeta. split; [exact cm_views_ok|]. split; [vm_compute; lia|].
  split; [apply (parse_then_commit_mem_readonly grow_double sha256 64 [cm_arena] cm_views)|].
  split; [eexists; split; [vm_compute; reflexivity|split; vm_compute; reflexivity]|].
  split; vm_compute; reflexivity.
Qed.

(* the leaf loop with the namespace view INSIDE the first leaf view (overlapping), capacity
   1024: two leaves are retained, both in blocks the loop allocated (2 and 4), and HashLeaf
   was fed namespace || share *)
Example subtree_leaves_mem_witness :
  let ns := mk_slice 0 0 29 1024 in
  let r := subtree_leaves_mem grow_double sha256 ns cm_views mtree_empty (mk_st [cm_arena] []) in
  sl_blk ns < 1 /\ Forall (fun l => sl_blk l < 1) cm_views /\
  exists t, snd r = Ok t /\
    rev (t_fed t) = map (fun s => cm_ns ++ s) cm_shares /\
    map sl_blk (t_leaves t) = [4; 2] /\
    tree_root sha256 t = nmt_root sha256 (map (fun s => cm_ns ++ s) cm_shares) /\
    firstn 1 (st_heap (fst r)) = [cm_arena].
Proof.
  cbv zeta. split; [cbn; lia|]. split; [repeat constructor|].
  eexists. split; [vm_compute; reflexivity|]. split; [vm_compute; reflexivity|].
  split; [vm_compute; reflexivity|]. split; [vm_compute; reflexivity|].
  apply (subtree_leaves_mem_readonly grow_double sha256 [cm_arena]).
Qed.

(* Write on a version 1 blob whose signer has spare capacity: the shares of the
   specification, and the signer's buffer is untouched *)
Example sparse_write_mem_witness :
  let r := sparse_write_mem grow_double sw_blob (mk_st sw_heap []) in
  mblob_ok sw_heap sw_blob /\ blob_ok (mblob_val sw_heap sw_blob) /\
  (exists shs, snd r = Ok shs /\ length shs = 1 /\
     map (mread_bytes (st_heap (fst r))) shs = blob_spec (mblob_val sw_heap sw_blob)) /\
  firstn 3 (st_heap (fst r)) = sw_heap /\
  log_writes_below 3 (st_log (fst r)) = false.
Proof.
  cbv zeta. split; [vm_compute; repeat split; lia|]. split.
  { unfold blob_ok. vm_compute. repeat split; try discriminate; try lia.
    right. split; [reflexivity|]. eexists. split; reflexivity. }
  split; [eexists; split; [vm_compute; reflexivity|split; vm_compute; reflexivity]|].
  split; [apply (sparse_write_mem_readonly grow_double sw_heap sw_blob)|vm_compute; reflexivity].
Qed.

(* three concurrent leaf loops over the same (overlapping) views, steps interleaved:
   all finish with the solo tree, block 0 unchanged, each allocated four blocks (with
   grow_double the 29-byte buffer is reallocated when the share is appended) *)
Example subtree_leaves_concurrent_witness :
  let ns := mk_slice 0 0 29 1024 in
  let ths := repeat (sl_thread grow_double true sha256 ns cm_views, sl_start) 3 in
  let final := run_sched 1 [0;1;2;2;1;0] ([cm_arena], ths) in
  fst final = [cm_arena] /\
  map (fun th => (length (fst th), tc_loc (snd th))) (snd final) =
    repeat (0, snd (subtree_leaves_mem grow_double sha256 ns cm_views mtree_empty (mk_st [cm_arena] []))) 3 /\
  map (fun th => length (tc_priv (snd th))) (snd final) = [4; 4; 4].
Proof. vm_compute. repeat split; reflexivity. Qed.

(* ================================================================== *)
(* 6. The statements of Properties/C17_commit.v                        *)
(* ================================================================== *)

Theorem leaf_build_mem_correct : forall g h ns leaf,
  run_read_only (leaf_build_mem g ns leaf) h /\
  (sl_blk ns < length h -> sl_blk leaf < length h ->
   let r := leaf_build_mem g ns leaf (mk_st h []) in
   exists d, snd r = Ok d /\
     mread_bytes (st_heap (fst r)) d = mread_bytes h ns ++ mread_bytes h leaf).
Proof.
  intros g h ns leaf.
  exact (conj (leaf_build_mem_readonly g h ns leaf) (leaf_build_mem_refines g h ns leaf)).
Qed.

Theorem sparse_write_mem_correct : forall g h bl,
  run_read_only (sparse_write_mem g bl) h /\
  (mblob_ok h bl ->
   let r := sparse_write_mem g bl (mk_st h []) in
   outcome_rel (fun shs pshs => map (mread_bytes (st_heap (fst r))) shs = pshs)
     (snd r) (sparse_write (mblob_val h bl))).
Proof.
  intros g h bl. exact (conj (sparse_write_mem_readonly g h bl) (sparse_write_mem_refines g h bl)).
Qed.

Theorem subtree_roots_mem_correct : forall g H h bl thr,
  run_read_only (subtree_roots_mem g H bl thr) h /\
  (mblob_ok h bl ->
   snd (subtree_roots_mem g H bl thr (mk_st h [])) = subtree_roots H (mblob_val h bl) thr).
Proof.
  intros g H h bl thr.
  exact (conj (subtree_roots_mem_readonly g H h bl thr) (subtree_roots_mem_refines g H h bl thr)).
Qed.

Theorem parse_blobs_views_mem_correct : forall g h views,
  run_read_only (parse_blobs_views_mem g views) h /\
  (Forall (view_ok h) views ->
   let r := parse_blobs_views_mem g views (mk_st h []) in
   outcome_rel (Forall2 (mblob_rel (st_heap (fst r)))) (snd r)
     (parse_blobs (map (mread_bytes h) views))).
Proof.
  intros g h views. split; [apply parse_blobs_views_mem_readonly|].
  intros FV. exact (proj2 (parse_blobs_views_refines g h views FV)).
Qed.

Theorem parse_then_commit_mem_correct : forall g H thr h views,
  run_read_only (parse_then_commit_mem g H thr views) h /\
  (Forall (view_ok h) views ->
   snd (parse_then_commit_mem g H thr views (mk_st h [])) =
   (do blobs <- parse_blobs (map (mread_bytes h) views);
    map_outcome (fun b => subtree_roots H b thr) blobs)).
Proof.
  intros g H thr h views.
  exact (conj (parse_then_commit_mem_readonly g H thr h views)
              (parse_then_commit_mem_refines g H thr h views)).
Qed.

Theorem parse_then_write_mem_correct : forall g h views,
  run_read_only (parse_then_write_mem g views) h /\
  (Forall (view_ok h) views ->
   let r := parse_then_write_mem g views (mk_st h []) in
   outcome_rel (fun l pl => map (map (mread_bytes (st_heap (fst r)))) l = pl) (snd r)
     (do blobs <- parse_blobs (map (mread_bytes h) views); map_outcome sparse_write blobs)).
Proof.
  intros g h views.
  exact (conj (parse_then_write_mem_readonly g h views) (parse_then_write_mem_refines g h views)).
Qed.

Theorem commit_steps_disciplined :
  (forall n0 g H thr views, disciplined (fun _ : unit => True) n0 (commit_step g true H thr views)) /\
  (forall n0 g views, disciplined (fun _ : unit => True) n0 (write_step g true views)) /\
  (forall n0 g H ns leaf, disciplined (fun _ : outcome mtree => True) n0 (sl_step g true H ns leaf)).
Proof.
  exact (conj commit_step_disciplined
          (conj write_step_disciplined (fun n0 g H ns leaf => sl_step_disciplined n0 g H ns leaf))).
Qed.

Theorem commit_steps_legacy_not_disciplined :
  ~ disciplined (fun _ : unit => True) 1 (commit_step grow_double false sha256 64 cm_views) /\
  ~ disciplined (fun _ : unit => True) 1 (write_step grow_double false cm_views) /\
  ~ disciplined (fun _ : outcome mtree => True) 1
      (sl_step grow_double false sha256 (mk_slice 0 0 29 1024) (mk_slice 0 512 512 512)).
Proof.
  exact (conj commit_step_legacy_not_disciplined
          (conj write_step_legacy_not_disciplined sl_step_legacy_not_disciplined)).
Qed.
