(* C13 at code level, continued: share.rawTxSize (share/utils.go) as printed into the REGENERATED
   GoLite program (Gen/Generated.v, from the Go source on every run), against Varint.delim_len.
   share.delimLen itself is an external of the translated program (GenLink.gen_ext: it is
   binary.PutUvarint into a scratch buffer, modelled by Varint.delim_len).  Statements only; proofs
   in GenMoreBase GenMoreC13.v. *)
From Coq Require Import List ZArith NArith String.
From GS.Model Require Import Base Varint GoLite.
From GS.Gen Require Import Generated.
From GS.GenProofs Require Import GenLink GenMoreBase GenMoreC13.
Open Scope string_scope. Open Scope Z_scope.

(* rawTxSize(desiredSize int) int: every non-negative int64 (fuel 2: it calls delimLen) *)
Theorem gen_raw_tx_size : forall fuel n, (2 <= fuel)%nat -> 0 <= n < 2^63 ->
  gen_call fuel "share.rawTxSize" I64 [n] = Val [n - Z.of_N (delim_len (Z.to_N n))].
Proof. exact raw_tx_size_gen. Qed.
Print Assumptions gen_raw_tx_size.

(* the result plus the delimiter length of the DESIRED size is the desired size; the result is
   between n-10 and n-1 *)
Theorem gen_raw_tx_size_sum : forall fuel n, (2 <= fuel)%nat -> 0 <= n < 2^63 ->
  exists r, gen_call fuel "share.rawTxSize" I64 [n] = Val [r] /\
            r + Z.of_N (delim_len (Z.to_N n)) = n /\ n - 10 <= r <= n - 1.
Proof. exact raw_tx_size_sum. Qed.
Print Assumptions gen_raw_tx_size_sum.

Example gen_raw_tx_size_ex :
  gen_call 2 "share.rawTxSize" I64 [100] = Val [99] /\
  gen_call 2 "share.rawTxSize" I64 [1000] = Val [998] /\
  gen_call 2 "share.rawTxSize" I64 [2^63 - 1] = Val [2^63 - 10] /\
  gen_call 2 "share.rawTxSize" I64 [0] = Val [-1] /\
  gen_call 1 "share.rawTxSize" I64 [100] = Fuel.
Proof. vm_compute. repeat split; reflexivity. Qed.

(* a remark on the (test-only) Go helper: the delimiter is sized for desiredSize, not for the
   result, so at 128 and 129 (and 16384, 16385, ...) a tx of the returned size plus ITS delimiter
   is one byte short of desiredSize *)
Example gen_raw_tx_size_boundary :
  gen_call 2 "share.rawTxSize" I64 [129] = Val [127] /\ (127 + delim_len 127 = 128)%N /\
  gen_call 2 "share.rawTxSize" I64 [130] = Val [128] /\ (128 + delim_len 128 = 130)%N.
Proof. vm_compute. repeat split; reflexivity. Qed.
