(* C14 (builder half), part 2: the square exported by a builder depends only on the
   accepted appends, not on interleaved exports, queries or refused appends.

   The proof is an observational equivalence [bd_equiv] between builders that is
     - preserved by appends, with the same accept/refuse decision on both sides,
     - not left by an export, a query or a refused append (the new state is
       equivalent to the old one),
     - fine enough that equivalent builders export the same square.
   [bd_equiv] ignores the recorded share-index VALUES of the index wrappers (every one of
   them is overwritten by the next export: invariant [bcover]), the "last" fields of
   the counters, the [done] flag, and identifies blob lists with equal stable sort. *)
From Coq Require Import List Arith NArith ZArith Lia Bool Permutation Sorted.
From Coq Require Import ZifyN ZifyNat ZifyBool.
From GS.Model Require Import Base Varint Namespace ShareFmt Blob Sparse Compact Counter Arith Proto Builder.
From GS.Proofs Require Import BaseLemmas NamespaceProofs SortProofs.
Import ListNotations.
Open Scope N_scope.

(* ---------- set_nth ---------- *)

Lemma length_set_nth {A} (v : A) l : forall n, length (set_nth n v l) = length l.
Proof. induction l as [|x l IH]; intros [|n]; cbn [set_nth length]; auto. Qed.

Lemma nth_error_set_nth_eq {A} (v : A) l : forall n, (n < length l)%nat ->
  nth_error (set_nth n v l) n = Some v.
Proof.
  induction l as [|x l IH]; intros [|n] H; cbn [set_nth nth_error length] in *; try lia; [reflexivity|].
  apply IH. lia.
Qed.

Lemma nth_error_set_nth_neq {A} (v : A) l : forall n m, n <> m ->
  nth_error (set_nth n v l) m = nth_error l m.
Proof.
  induction l as [|x l IH]; intros [|n] [|m] H; cbn [set_nth nth_error]; try reflexivity; try congruence.
  apply IH. congruence.
Qed.

Lemma map_set_nth {A B} (f : A -> B) (v : A) l : forall n,
  map f (set_nth n v l) = set_nth n (f v) (map f l).
Proof. induction l as [|x l IH]; intros [|n]; cbn [set_nth map]; try reflexivity. rewrite IH. reflexivity. Qed.

Lemma set_nth_same {A} (v : A) l : forall n, nth_error l n = Some v -> set_nth n v l = l.
Proof.
  induction l as [|x l IH]; intros [|n] H; cbn [set_nth nth_error] in *; try discriminate.
  - inversion H. reflexivity.
  - rewrite IH; [reflexivity|exact H].
Qed.

Lemma nth_error_ext_eq {A} (l : list A) : forall l', (forall n, nth_error l n = nth_error l' n) -> l = l'.
Proof.
  induction l as [|x l IH]; intros [|y l'] H.
  - reflexivity.
  - specialize (H 0%nat). discriminate.
  - specialize (H 0%nat). discriminate.
  - pose proof (H 0%nat) as H0. cbn [nth_error] in H0. inversion H0. f_equal.
    apply IH. intros n. exact (H (S n)).
Qed.

(* ---------- index wrappers: shape and slots ---------- *)

(* what [bd_equiv] keeps of an index wrapper: the transaction and the NUMBER of indexes *)
Definition pfb_shape (p : pfb) : bytes * nat := (pfb_tx p, length (pfb_idx p)).
Definition shape (P : list pfb) : list (bytes * nat) := map pfb_shape P.

(* the recorded share index of blob [j] of wrapper [i] *)
Definition slot (P : list pfb) (i j : nat) : option N :=
  match nth_error P i with Some p => nth_error (pfb_idx p) j | None => None end.

Lemma shape_length P P' : shape P = shape P' -> length P = length P'.
Proof. intros H. apply (f_equal (@length _)) in H. unfold shape in H. rewrite !map_length in H. exact H. Qed.

Lemma shape_nth P P' i : shape P = shape P' ->
  option_map pfb_shape (nth_error P i) = option_map pfb_shape (nth_error P' i).
Proof. intros H. rewrite <- !nth_error_map. fold (shape P). fold (shape P'). rewrite H. reflexivity. Qed.

Lemma slot_in_range_shape P P' i j : shape P = shape P' -> slot P i j <> None -> slot P' i j <> None.
Proof.
  intros H. pose proof (shape_nth P P' i H) as Hn. unfold slot.
  destruct (nth_error P i) as [p|]; destruct (nth_error P' i) as [p'|]; cbn [option_map] in Hn; try discriminate; try tauto.
  inversion Hn as [[Ht Hl]]. rewrite !nth_error_Some. lia.
Qed.

(* same shape and same values in every slot: equal *)
Lemma shape_slots_eq P : forall P', shape P = shape P' ->
  (forall i j, slot P i j = slot P' i j) -> P = P'.
Proof.
  induction P as [|p P IH]; intros [|p' P'] Hs Hv; try discriminate; [reflexivity|].
  cbn [shape map] in Hs. inversion Hs as [[Ht Hl Hr]]. f_equal.
  - destruct p as [tx idx], p' as [tx' idx']. cbn [pfb_tx pfb_idx] in *. subst tx'. f_equal.
    apply nth_error_ext_eq. intros n. exact (Hv 0%nat n).
  - apply IH; [exact Hr|]. intros i j. exact (Hv (S i) j).
Qed.

(* ---------- record_index ---------- *)

Lemma record_index_inv P pi bi cur Q : record_index P pi bi cur = Ok Q ->
  exists p, nth_error P (N.to_nat pi) = Some p /\ (N.to_nat bi < length (pfb_idx p))%nat /\
    Q = set_nth (N.to_nat pi) (mk_pfb (pfb_tx p) (set_nth (N.to_nat bi) (u32 cur) (pfb_idx p))) P.
Proof.
  unfold record_index. destruct (nth_error P (N.to_nat pi)) as [p|]; [|discriminate].
  destruct (lenN (pfb_idx p) <=? bi) eqn:E; [discriminate|]. intros H. inversion H.
  exists p. split; [reflexivity|]. split; [|reflexivity]. unfold lenN in E. lia.
Qed.

Lemma record_index_shape P pi bi cur Q : record_index P pi bi cur = Ok Q -> shape Q = shape P.
Proof.
  intros H. apply record_index_inv in H. destruct H as (p & Hp & Hb & ->).
  unfold shape. rewrite map_set_nth. apply set_nth_same.
  rewrite nth_error_map, Hp. cbn [option_map]. unfold pfb_shape. cbn [pfb_tx pfb_idx].
  rewrite length_set_nth. reflexivity.
Qed.

(* the outcome only depends on the shape *)
Lemma record_index_rel P P' pi bi cur Q : shape P = shape P' ->
  record_index P pi bi cur = Ok Q -> exists Q', record_index P' pi bi cur = Ok Q'.
Proof.
  intros Hs H. apply record_index_inv in H. destruct H as (p & Hp & Hb & _).
  pose proof (shape_nth P P' (N.to_nat pi) Hs) as Hn. rewrite Hp in Hn.
  unfold record_index. destruct (nth_error P' (N.to_nat pi)) as [p'|]; [|discriminate].
  cbn [option_map] in Hn. inversion Hn as [[Ht Hl]].
  destruct (lenN (pfb_idx p') <=? bi) eqn:E; [unfold lenN in E; lia|]. eexists. reflexivity.
Qed.

Lemma record_index_slot P pi bi cur Q i j : record_index P pi bi cur = Ok Q ->
  slot Q i j = if Nat.eqb i (N.to_nat pi) && Nat.eqb j (N.to_nat bi) then Some (u32 cur) else slot P i j.
Proof.
  intros H. apply record_index_inv in H. destruct H as (p & Hp & Hb & ->). unfold slot.
  destruct (Nat.eqb i (N.to_nat pi)) eqn:Ei; cbn [andb].
  - apply Nat.eqb_eq in Ei. subst i. rewrite nth_error_set_nth_eq.
    2:{ apply nth_error_Some. rewrite Hp. discriminate. }
    cbn [pfb_idx]. rewrite Hp. destruct (Nat.eqb j (N.to_nat bi)) eqn:Ej.
    + apply Nat.eqb_eq in Ej. subst j. apply nth_error_set_nth_eq. exact Hb.
    + apply Nat.eqb_neq in Ej. apply nth_error_set_nth_neq. congruence.
  - apply Nat.eqb_neq in Ei. rewrite nth_error_set_nth_neq; [reflexivity|congruence].
Qed.

(* ---------- the blob loop of Export ---------- *)

Definition el_slot (x : element) (i j : nat) : Prop :=
  N.to_nat (e_pfb_index x) = i /\ N.to_nat (e_blob_index x) = j.

Lemma export_blobs_shape thr els : forall first st st',
  export_blobs thr first els st = Ok st' -> shape (bl_pfbs st') = shape (bl_pfbs st).
Proof.
  induction els as [|e tl IH]; intros first st st' H; cbn [export_blobs] in H.
  - inversion H. reflexivity.
  - destruct (e_max_padding e <? _); [discriminate|].
    destruct (record_index _ _ _ _) as [Q| |] eqn:ER; cbn [bind] in H; try discriminate.
    destruct (if first then _ else _) as [s1| |]; cbn [bind] in H; try discriminate.
    destruct (sparse_write_item s1 _) as [s2| |]; cbn [bind] in H; try discriminate.
    apply IH in H. cbn [bl_pfbs] in H. rewrite H. eapply record_index_shape. exact ER.
Qed.

(* Started from index-wrapper lists of the same shape, the loop does the same thing;
   the resulting lists have the same shape and agree on every slot on which the
   initial lists agreed (set [S]) and on every slot of an element of [els]. *)
Lemma export_blobs_rel thr els : forall first c e n P P' s st (S : nat -> nat -> Prop),
  shape P = shape P' ->
  (forall i j, S i j -> slot P i j = slot P' i j) ->
  export_blobs thr first els (mk_bls c e n P s) = Ok st ->
  exists Q', export_blobs thr first els (mk_bls c e n P' s)
             = Ok (mk_bls (bl_cursor st) (bl_end_last st) (bl_nrs st) Q' (bl_shares st)) /\
    shape (bl_pfbs st) = shape Q' /\
    (forall i j, (S i j \/ exists x, In x els /\ el_slot x i j) -> slot (bl_pfbs st) i j = slot Q' i j).
Proof.
  induction els as [|x tl IH]; intros first c e n P P' s st S Hs Hv H; cbn [export_blobs] in *.
  - inversion H. subst st. cbn [bl_cursor bl_end_last bl_nrs bl_shares bl_pfbs]. exists P'.
    split; [reflexivity|]. split; [exact Hs|]. intros i j [HS|(y & [] & _)]. apply Hv. exact HS.
  - cbn [bl_cursor bl_end_last bl_nrs bl_shares bl_pfbs] in *.
    destruct (e_max_padding x <? _); [discriminate|].
    destruct (record_index P _ _ _) as [Q| |] eqn:ER; cbn [bind] in H; try discriminate.
    destruct (record_index_rel P P' _ _ _ Q Hs ER) as (Q1 & ER'). rewrite ER'. cbn [bind].
    destruct (if first then _ else _) as [s1| |]; cbn [bind] in *; try discriminate.
    destruct (sparse_write_item s1 _) as [s2| |]; cbn [bind] in *; try discriminate.
    assert (Hs1 : shape Q = shape Q1).
    { rewrite (record_index_shape _ _ _ _ _ ER), (record_index_shape _ _ _ _ _ ER'). exact Hs. }
    assert (Hv1 : forall i j, (S i j \/ el_slot x i j) -> slot Q i j = slot Q1 i j).
    { intros i j HS. rewrite (record_index_slot _ _ _ _ _ i j ER), (record_index_slot _ _ _ _ _ i j ER').
      destruct (Nat.eqb i (N.to_nat (e_pfb_index x)) && Nat.eqb j (N.to_nat (e_blob_index x))) eqn:Eij; [reflexivity|].
      destruct HS as [HS|[Hi Hj]]; [apply Hv; exact HS|].
      subst i j. rewrite !Nat.eqb_refl in Eij. discriminate. }
    destruct (IH _ _ _ _ _ Q1 _ _ _ Hs1 Hv1 H) as (Q' & HE & Hs' & Hv').
    exists Q'. split; [exact HE|]. split; [exact Hs'|].
    intros i j [HS|(y & [<-|Hy] & Hslot)]; apply Hv'.
    + left. left. exact HS.
    + left. right. exact Hslot.
    + right. exists y. split; assumption.
Qed.

(* every slot of the index wrappers belongs to an element *)
Definition cover (P : list pfb) (els : list element) : Prop :=
  forall i j, slot P i j <> None -> exists x, In x els /\ el_slot x i j.

Lemma cover_shape_perm P P' els els' : shape P = shape P' -> Permutation els els' ->
  cover P els -> cover P' els'.
Proof.
  intros Hs Hp Hc i j Hr. destruct (Hc i j) as (x & Hx & Hxs).
  - eapply slot_in_range_shape; [symmetry; exact Hs|exact Hr].
  - exists x. split; [eapply Permutation_in; eassumption|exact Hxs].
Qed.

(* hence the result of the loop does not depend on the index values it started from *)
Lemma export_blobs_cover thr els first c e n P P' s st :
  shape P = shape P' -> cover P els ->
  export_blobs thr first els (mk_bls c e n P s) = Ok st ->
  export_blobs thr first els (mk_bls c e n P' s) = Ok st.
Proof.
  intros Hs Hc H.
  destruct (export_blobs_rel thr els first c e n P P' s st (fun _ _ => False) Hs) as (Q' & HE & Hs' & Hv);
    [intros i j []|exact H|].
  assert (HQ : bl_pfbs st = Q').
  { apply shape_slots_eq; [exact Hs'|]. intros i j.
    destruct (slot (bl_pfbs st) i j) eqn:E1.
    - rewrite <- E1. apply Hv. right. apply Hc.
      eapply slot_in_range_shape; [apply (export_blobs_shape _ _ _ _ _ H)|]. rewrite E1. discriminate.
    - destruct (slot Q' i j) eqn:E2; [|reflexivity]. exfalso.
      assert (Hr : slot (bl_pfbs st) i j <> None).
      { eapply slot_in_range_shape; [symmetry; exact Hs'|]. rewrite E2. discriminate. }
      exact (Hr E1). }
  rewrite HE, <- HQ. destruct st; reflexivity.
Qed.

(* ---------- counters ---------- *)

(* what [bd_equiv] keeps of a counter: everything but the undo information *)
Definition cnt_eq (c c' : counter) : Prop := c_shares c = c_shares c' /\ c_rem c = c_rem c'.

Lemma cnt_eq_refl c : cnt_eq c c.
Proof. split; reflexivity. Qed.
Lemma cnt_eq_sym c c' : cnt_eq c c' -> cnt_eq c' c.
Proof. intros [H1 H2]. split; symmetry; assumption. Qed.
Lemma cnt_eq_trans c1 c2 c3 : cnt_eq c1 c2 -> cnt_eq c2 c3 -> cnt_eq c1 c3.
Proof. intros [H1 H2] [H3 H4]. split; congruence. Qed.

Lemma counter_size_cnt_eq c c' : cnt_eq c c' -> counter_size c = counter_size c'.
Proof. intros [H1 H2]. unfold counter_size. rewrite H1, H2. reflexivity. Qed.

Lemma counter_add_cnt_eq c c' n : cnt_eq c c' -> counter_add c n = counter_add c' n.
Proof. intros [H1 H2]. unfold counter_add. rewrite H1, H2. reflexivity. Qed.

(* Add remembers the state it started from *)
Lemma counter_add_remembers c n :
  c_last_shares (fst (counter_add c n)) = c_shares c /\ c_last_rem (fst (counter_add c n)) = c_rem c.
Proof.
  unfold counter_add.
  repeat match goal with |- context [if ?x then _ else _] => destruct x end;
    cbn [fst c_last_shares c_last_rem]; split; reflexivity.
Qed.

Lemma counter_revert_add c n : cnt_eq (counter_revert (fst (counter_add c n))) c.
Proof.
  destruct (counter_add_remembers c n) as [H1 H2]. unfold cnt_eq, counter_revert. cbn [c_shares c_rem]. split; assumption.
Qed.

(* ---------- the equivalence ---------- *)

Record bd_equiv (b c : builder) : Prop := mk_bd_equiv {
  bd_equiv_max : bd_max b = bd_max c;
  bd_equiv_thr : bd_thr b = bd_thr c;
  bd_equiv_cur : bd_cur b = bd_cur c;
  bd_equiv_txs : bd_txs b = bd_txs c;
  bd_equiv_pfbs : shape (bd_pfbs b) = shape (bd_pfbs c);
  bd_equiv_blobs : sort_elements (bd_blobs b) = sort_elements (bd_blobs c);
  bd_equiv_txc : cnt_eq (bd_txc b) (bd_txc c);
  bd_equiv_pfbc : cnt_eq (bd_pfbc b) (bd_pfbc c)
}.

Lemma bd_equiv_refl b : bd_equiv b b.
Proof. constructor; try reflexivity; apply cnt_eq_refl. Qed.
Lemma bd_equiv_sym b c : bd_equiv b c -> bd_equiv c b.
Proof. intros []. constructor; try (symmetry; assumption); apply cnt_eq_sym; assumption. Qed.
Lemma bd_equiv_trans a b c : bd_equiv a b -> bd_equiv b c -> bd_equiv a c.
Proof. intros [] []. constructor; try congruence; eapply cnt_eq_trans; eassumption. Qed.

(* the invariant: every index slot has an element that will overwrite it *)
Definition bcover (b : builder) : Prop := cover (bd_pfbs b) (bd_blobs b).

Lemma bcover_empty max thr : bcover (empty_builder max thr).
Proof. intros i j H. exfalso. apply H. unfold slot. cbn. destruct i; reflexivity. Qed.

Lemma can_fit_equiv b c n : bd_equiv b c -> can_fit b n = can_fit c n.
Proof. intros []. unfold can_fit. congruence. Qed.

(* ---------- AppendTx ---------- *)

Lemma append_tx_equiv b c tx : bd_equiv b c ->
  snd (append_tx b tx) = snd (append_tx c tx) /\ bd_equiv (fst (append_tx b tx)) (fst (append_tx c tx)).
Proof.
  intros H. unfold append_tx. rewrite (counter_add_cnt_eq _ _ _ (bd_equiv_txc _ _ H)).
  destruct (counter_add (bd_txc c) _) as [c' diff]. rewrite (can_fit_equiv _ _ _ H).
  destruct H. destruct (can_fit c diff); cbn [fst snd]; (split; [reflexivity|]);
    constructor; cbn [bd_max bd_thr bd_cur bd_txs bd_pfbs bd_blobs bd_txc bd_pfbc]; try congruence; apply cnt_eq_refl.
Qed.

Lemma append_tx_refused b tx : snd (append_tx b tx) = false -> bd_equiv (fst (append_tx b tx)) b.
Proof.
  unfold append_tx. pose proof (counter_revert_add (bd_txc b) (Z.of_N (lenN tx))) as Hc.
  destruct (counter_add (bd_txc b) _) as [c' diff]. cbn [fst] in Hc.
  destruct (can_fit b diff); cbn [fst snd]; [discriminate|]. intros _.
  constructor; cbn [bd_max bd_thr bd_cur bd_txs bd_pfbs bd_blobs bd_txc bd_pfbc]; try reflexivity; [exact Hc|apply cnt_eq_refl].
Qed.

Lemma append_tx_cover b tx : bcover b -> bcover (fst (append_tx b tx)).
Proof.
  unfold append_tx, bcover. destruct (counter_add (bd_txc b) _) as [c' diff].
  destruct (can_fit b diff); cbn [fst bd_pfbs bd_blobs]; tauto.
Qed.

(* ---------- AppendBlobTx ---------- *)

Lemma shape_lenN P P' : shape P = shape P' -> lenN P = lenN P'.
Proof. intros H. unfold lenN. rewrite (shape_length _ _ H). reflexivity. Qed.

Lemma append_blob_tx_equiv b c t : bd_equiv b c ->
  snd (append_blob_tx b t) = snd (append_blob_tx c t) /\
  bd_equiv (fst (append_blob_tx b t)) (fst (append_blob_tx c t)).
Proof.
  intros H. unfold append_blob_tx. rewrite (counter_add_cnt_eq _ _ _ (bd_equiv_pfbc _ _ H)).
  destruct (counter_add (bd_pfbc c) _) as [c' diff]. rewrite (can_fit_equiv _ _ _ H).
  rewrite (shape_lenN _ _ (bd_equiv_pfbs _ _ H)), (bd_equiv_thr _ _ H).
  destruct H. destruct (can_fit c _); cbn [fst snd]; (split; [reflexivity|]);
    constructor; cbn [bd_max bd_thr bd_cur bd_txs bd_pfbs bd_blobs bd_txc bd_pfbc]; try congruence; try apply cnt_eq_refl.
  - unfold shape in *. rewrite !map_app. congruence.
  - apply sort_app_congr. assumption.
Qed.

Lemma append_blob_tx_refused b t : snd (append_blob_tx b t) = false -> bd_equiv (fst (append_blob_tx b t)) b.
Proof.
  unfold append_blob_tx.
  pose proof (counter_revert_add (bd_pfbc b)
    (Z.of_N (index_wrapper_size (btx_tx t) (worst_case_share_indexes (length (btx_blobs t)))))) as Hc.
  destruct (counter_add (bd_pfbc b) _) as [c' diff]. cbn [fst] in Hc.
  destruct (can_fit b _); cbn [fst snd]; [discriminate|]. intros _.
  constructor; cbn [bd_max bd_thr bd_cur bd_txs bd_pfbs bd_blobs bd_txc bd_pfbc]; try reflexivity; [apply cnt_eq_refl|exact Hc].
Qed.

Lemma elements_of_cover thr pi blobs : forall k j, (j < length blobs)%nat ->
  exists x, In x (elements_of blobs pi k thr) /\ e_pfb_index x = pi /\ e_blob_index x = k + N.of_nat j.
Proof.
  induction blobs as [|bl tl IH]; intros k j Hj; cbn [length] in Hj; [lia|]. cbn [elements_of].
  destruct j as [|j].
  - eexists. split; [left; reflexivity|]. unfold new_element. cbn [e_pfb_index e_blob_index]. split; [reflexivity|lia].
  - destruct (IH (k + 1) j) as (x & Hx & Hp & Hb); [lia|]. exists x. split; [right; exact Hx|]. split; [exact Hp|lia].
Qed.

Lemma append_blob_tx_cover b t : bcover b -> bcover (fst (append_blob_tx b t)).
Proof.
  unfold append_blob_tx, bcover. destruct (counter_add (bd_pfbc b) _) as [c' diff].
  destruct (can_fit b _); cbn [fst bd_pfbs bd_blobs]; [|tauto].
  intros Hc i j Hr. unfold slot in Hr.
  destruct (Nat.lt_ge_cases i (length (bd_pfbs b))) as [Hi|Hi].
  - rewrite nth_error_app1 in Hr by exact Hi. destruct (Hc i j Hr) as (x & Hx & Hs).
    exists x. split; [apply in_or_app; left; exact Hx|exact Hs].
  - rewrite nth_error_app2 in Hr by exact Hi.
    destruct (i - length (bd_pfbs b))%nat as [|d] eqn:Ed.
    + cbn [nth_error pfb_idx] in Hr. apply nth_error_Some in Hr.
      unfold worst_case_share_indexes in Hr. rewrite repeat_length in Hr.
      destruct (elements_of_cover (bd_thr b) (lenN (bd_pfbs b)) (btx_blobs t) 0 j Hr) as (x & Hx & Hp & Hb).
      exists x. split; [apply in_or_app; right; exact Hx|]. unfold el_slot. rewrite Hp, Hb. unfold lenN. lia.
    + exfalso. apply Hr. cbn [nth_error]. destruct d; reflexivity.
Qed.

(* ---------- Export ---------- *)

Lemma builder_is_empty_equiv b c : bd_equiv b c -> builder_is_empty b = builder_is_empty c.
Proof.
  intros H. unfold builder_is_empty.
  rewrite (counter_size_cnt_eq _ _ (bd_equiv_txc _ _ H)), (counter_size_cnt_eq _ _ (bd_equiv_pfbc _ _ H)). reflexivity.
Qed.

(* the state after an export is equivalent to the state before it *)
Lemma export_equiv b b' sq : export b = Ok (b', sq) -> bd_equiv b' b /\ (bcover b -> bcover b').
Proof.
  intros E. unfold export in E. destruct (builder_is_empty b).
  - destruct empty_square as [sq0| |]; cbn [bind] in E; try discriminate. inversion E; subst.
    split; [apply bd_equiv_refl|tauto].
  - destruct (new_csplitter tx_ns 0) as [txw0| |]; cbn [bind] in E; try discriminate.
    destruct (write_txs txw0 (bd_txs b)) as [txw| |]; cbn [bind] in E; try discriminate.
    destruct (export_blobs _ _ _ _) as [st| |] eqn:EB; cbn [bind] in E; try discriminate.
    destruct (new_csplitter pfb_ns 0) as [pfbw0| |]; cbn [bind] in E; try discriminate.
    destruct (write_txs pfbw0 _) as [pfbw| |]; cbn [bind] in E; try discriminate.
    destruct (_ <? _)%Z; [discriminate|].
    destruct (write_square _ _ _ _ _) as [sq0| |]; cbn [bind] in E; try discriminate.
    inversion E; subst b' sq0. apply export_blobs_shape in EB. cbn [bl_pfbs] in EB. split.
    + constructor; cbn [bd_max bd_thr bd_cur bd_txs bd_pfbs bd_blobs bd_txc bd_pfbc];
        try reflexivity; try apply cnt_eq_refl; [exact EB|apply sort_elements_idem].
    + unfold bcover. cbn [bd_pfbs bd_blobs]. apply cover_shape_perm; [symmetry; exact EB|].
      apply Permutation_sym, sort_elements_perm.
Qed.

(* equivalent builders export the same square *)
Lemma export_rel b c b' sq : bd_equiv b c -> bcover b -> export b = Ok (b', sq) ->
  exists c', export c = Ok (c', sq).
Proof.
  intros H Hc E. unfold export in *. rewrite <- (builder_is_empty_equiv _ _ H).
  destruct (builder_is_empty b).
  - destruct empty_square as [sq0| |]; cbn [bind] in *; try discriminate. inversion E; subst.
    eexists. reflexivity.
  - rewrite <- (bd_equiv_cur _ _ H), <- (bd_equiv_txs _ _ H), <- (bd_equiv_thr _ _ H), <- (bd_equiv_blobs _ _ H),
      <- (counter_size_cnt_eq _ _ (bd_equiv_txc _ _ H)), <- (counter_size_cnt_eq _ _ (bd_equiv_pfbc _ _ H)).
    destruct (new_csplitter tx_ns 0) as [txw0| |]; cbn [bind] in *; try discriminate.
    destruct (write_txs txw0 (bd_txs b)) as [txw| |]; cbn [bind] in *; try discriminate.
    destruct (export_blobs _ _ _ (mk_bls _ _ _ (bd_pfbs b) _)) as [st| |] eqn:EB; cbn [bind] in E; try discriminate.
    assert (Hc' : cover (bd_pfbs b) (sort_elements (bd_blobs b))).
    { eapply cover_shape_perm; [reflexivity|apply Permutation_sym, sort_elements_perm|exact Hc]. }
    rewrite (export_blobs_cover _ _ _ _ _ _ _ (bd_pfbs c) _ _ (bd_equiv_pfbs _ _ H) Hc' EB). cbn [bind].
    destruct (new_csplitter pfb_ns 0) as [pfbw0| |]; cbn [bind] in *; try discriminate.
    destruct (write_txs pfbw0 _) as [pfbw| |]; cbn [bind] in *; try discriminate.
    destruct (_ <? _)%Z; [discriminate|].
    destruct (write_square _ _ _ _ _) as [sq0| |]; cbn [bind] in *; try discriminate.
    inversion E; subst. eexists. reflexivity.
Qed.

Lemma export_rel_eq b c b' c' sq sq' : bd_equiv b c -> bcover b ->
  export b = Ok (b', sq) -> export c = Ok (c', sq') -> sq' = sq.
Proof.
  intros H Hc E E'. destruct (export_rel _ _ _ _ H Hc E) as (c'' & E''). rewrite E'' in E'.
  inversion E'. reflexivity.
Qed.

(* ---------- what exports and queries can do to the state ---------- *)

(* the builder after a call that may run Export internally:
   unchanged (already done, or an error before the export), successfully exported,
   or left behind by an Export that returned an error part-way: Go has then sorted
   b.Blobs in place and overwritten some of the recorded indexes *)
Definition failed_export (b b' : builder) : Prop :=
  exists P', shape P' = shape (bd_pfbs b) /\
    b' = mk_bd (bd_max b) (bd_thr b) (bd_cur b) (bd_txs b) P' (sort_elements (bd_blobs b))
               (bd_txc b) (bd_pfbc b) (bd_done b).

Definition visited (b b' : builder) : Prop :=
  b' = b \/ (exists sq, export b = Ok (b', sq)) \/ failed_export b b'.

Lemma visited_equiv b b' : visited b b' -> bd_equiv b' b /\ (bcover b -> bcover b').
Proof.
  intros [->|[(sq & E)|(P' & Hs & ->)]].
  - split; [apply bd_equiv_refl|tauto].
  - eapply export_equiv. exact E.
  - split.
    + constructor; cbn [bd_max bd_thr bd_cur bd_txs bd_pfbs bd_blobs bd_txc bd_pfbc];
        try reflexivity; try apply cnt_eq_refl; [exact Hs|apply sort_elements_idem].
    + unfold bcover. cbn [bd_pfbs bd_blobs]. apply cover_shape_perm; [symmetry; exact Hs|].
      apply Permutation_sym, sort_elements_perm.
Qed.

Lemma ensure_done_visited b b1 :
  (if bd_done b then Ok b else do r <- export b; Ok (fst r)) = Ok b1 -> visited b b1.
Proof.
  destruct (bd_done b); [intros H; inversion H; left; reflexivity|].
  destruct (export b) as [[b2 sq]| |] eqn:E; cbn [bind fst]; try discriminate.
  intros H; inversion H; subst. right. left. exists sq. exact E.
Qed.

Ltac query_cases H :=
  repeat match type of H with
  | context [if ?x then _ else _] => destruct x; try discriminate
  | context [match ?x with _ => _ end] => destruct x; try discriminate
  end.

Lemma find_tx_share_range_visited b i b1 r : find_tx_share_range b i = Ok (b1, r) -> visited b b1.
Proof.
  unfold find_tx_share_range.
  destruct (if bd_done b then Ok b else do r <- export b; Ok (fst r)) as [b2| |] eqn:E; cbn [bind]; try discriminate.
  apply ensure_done_visited in E. intros H. query_cases H; inversion H; subst; exact E.
Qed.

Lemma find_blob_starting_index_visited b p j b1 r :
  find_blob_starting_index b p j = Ok (b1, r) -> visited b b1.
Proof.
  unfold find_blob_starting_index. intros H.
  destruct (_ <? _)%Z; [discriminate|]. destruct (_ <=? _)%Z; [discriminate|]. destruct (_ <? _)%Z; [discriminate|].
  destruct (if bd_done b then Ok b else do r <- export b; Ok (fst r)) as [b2| |] eqn:E; cbn [bind] in H; try discriminate.
  apply ensure_done_visited in E. query_cases H; inversion H; subst; exact E.
Qed.

Lemma get_wrapped_pfb_visited b i b1 r : get_wrapped_pfb b i = Ok (b1, r) -> visited b b1.
Proof.
  unfold get_wrapped_pfb. intros H.
  destruct (_ <? _)%Z; [discriminate|]. destruct (_ <? _)%Z; [discriminate|]. destruct (_ <=? _)%Z; [discriminate|].
  destruct (if bd_done b then Ok b else do r <- export b; Ok (fst r)) as [b2| |] eqn:E; cbn [bind] in H; try discriminate.
  apply ensure_done_visited in E. query_cases H; inversion H; subst; exact E.
Qed.

(* ---------- histories ---------- *)

Inductive bop :=
| BTx (tx : bytes)            (* AppendTx, accepted or refused *)
| BBlobTx (t : blob_tx)       (* AppendBlobTx, accepted or refused *)
| BExport                     (* Export *)
| BFindTx (i : Z)             (* FindTxShareRange *)
| BFindBlob (p j : Z)         (* FindBlobStartingIndex *)
| BWrapped (i : Z).           (* GetWrappedPFB *)

Definition bstep (b : builder) (o : bop) : outcome builder :=
  match o with
  | BTx tx => Ok (fst (append_tx b tx))
  | BBlobTx t => Ok (fst (append_blob_tx b t))
  | BExport => do r <- export b; Ok (fst r)
  | BFindTx i => do r <- find_tx_share_range b i; Ok (fst r)
  | BFindBlob p j => do r <- find_blob_starting_index b p j; Ok (fst r)
  | BWrapped i => do r <- get_wrapped_pfb b i; Ok (fst r)
  end.

Fixpoint brun (b : builder) (ops : list bop) : outcome builder :=
  match ops with
  | [] => Ok b
  | o :: tl => do b' <- bstep b o; brun b' tl
  end.

(* [o], if it is an append that the builder [b] accepts *)
Definition accepted_op (b : builder) (o : bop) : list bop :=
  match o with
  | BTx tx => if snd (append_tx b tx) then [o] else []
  | BBlobTx t => if snd (append_blob_tx b t) then [o] else []
  | _ => []
  end.

(* the appends that are accepted when [ops] is run from [b] *)
Fixpoint accepted_of (b : builder) (ops : list bop) : list bop :=
  match ops with
  | [] => []
  | o :: tl =>
    match bstep b o with
    | Ok b' => accepted_op b o ++ accepted_of b' tl
    | _ => []
    end
  end.

(* A more liberal notion of history: after an export or a query the builder is in ANY
   of the [visited] states.  This also covers exports and queries that return an error
   (the model functions then return no builder, Go keeps the mutated one). *)
Definition gstep (b : builder) (o : bop) (b' : builder) : Prop :=
  match o with
  | BTx tx => b' = fst (append_tx b tx)
  | BBlobTx t => b' = fst (append_blob_tx b t)
  | _ => visited b b'
  end.

Inductive grun : builder -> list bop -> list bop -> builder -> Prop :=
| grun_nil b : grun b [] [] b
| grun_cons b o b1 ops acc b' :
    gstep b o b1 -> grun b1 ops acc b' -> grun b (o :: ops) (accepted_op b o ++ acc) b'.

Lemma bstep_gstep b o b' : bstep b o = Ok b' -> gstep b o b'.
Proof.
  destruct o; cbn [bstep gstep]; intros H.
  - inversion H. reflexivity.
  - inversion H. reflexivity.
  - destruct (export b) as [[b2 sq]| |] eqn:E; cbn [bind fst] in H; try discriminate. inversion H; subst.
    right. left. exists sq. exact E.
  - destruct (find_tx_share_range b i) as [[b2 r]| |] eqn:E; cbn [bind fst] in H; try discriminate.
    inversion H; subst. eapply find_tx_share_range_visited. exact E.
  - destruct (find_blob_starting_index b p j) as [[b2 r]| |] eqn:E; cbn [bind fst] in H; try discriminate.
    inversion H; subst. eapply find_blob_starting_index_visited. exact E.
  - destruct (get_wrapped_pfb b i) as [[b2 r]| |] eqn:E; cbn [bind fst] in H; try discriminate.
    inversion H; subst. eapply get_wrapped_pfb_visited. exact E.
Qed.

Lemma brun_grun ops : forall b b', brun b ops = Ok b' -> grun b ops (accepted_of b ops) b'.
Proof.
  induction ops as [|o tl IH]; intros b b' H; cbn [brun accepted_of] in *.
  - inversion H. constructor.
  - destruct (bstep b o) as [b1| |] eqn:E; cbn [bind] in H; try discriminate.
    econstructor; [apply bstep_gstep; exact E|apply IH; exact H].
Qed.

Lemma gstep_equiv_cover b o b1 : gstep b o b1 ->
  (bcover b -> bcover b1) /\
  forall c, bd_equiv b c -> exists c1, brun c (accepted_op b o) = Ok c1 /\ bd_equiv b1 c1.
Proof.
  destruct o; cbn [gstep accepted_op]; intros H.
  - subst b1. split; [apply append_tx_cover|]. intros c Hbc.
    destruct (append_tx_equiv b c tx Hbc) as [Hd Hq].
    destruct (snd (append_tx b tx)) eqn:Ed.
    + eexists. split; [reflexivity|exact Hq].
    + exists c. split; [reflexivity|]. eapply bd_equiv_trans; [apply append_tx_refused; exact Ed|exact Hbc].
  - subst b1. split; [apply append_blob_tx_cover|]. intros c Hbc.
    destruct (append_blob_tx_equiv b c t Hbc) as [Hd Hq].
    destruct (snd (append_blob_tx b t)) eqn:Ed.
    + eexists. split; [reflexivity|exact Hq].
    + exists c. split; [reflexivity|]. eapply bd_equiv_trans; [apply append_blob_tx_refused; exact Ed|exact Hbc].
  - destruct (visited_equiv _ _ H) as [Hq Hc]. split; [exact Hc|]. intros c Hbc. exists c.
    split; [reflexivity|eapply bd_equiv_trans; eassumption].
  - destruct (visited_equiv _ _ H) as [Hq Hc]. split; [exact Hc|]. intros c Hbc. exists c.
    split; [reflexivity|eapply bd_equiv_trans; eassumption].
  - destruct (visited_equiv _ _ H) as [Hq Hc]. split; [exact Hc|]. intros c Hbc. exists c.
    split; [reflexivity|eapply bd_equiv_trans; eassumption].
  - destruct (visited_equiv _ _ H) as [Hq Hc]. split; [exact Hc|]. intros c Hbc. exists c.
    split; [reflexivity|eapply bd_equiv_trans; eassumption].
Qed.

Lemma brun_app ops1 : forall b b1 ops2, brun b ops1 = Ok b1 -> brun b (ops1 ++ ops2) = brun b1 ops2.
Proof.
  induction ops1 as [|o tl IH]; intros b b1 ops2 H; cbn [brun app] in *.
  - inversion H. reflexivity.
  - destruct (bstep b o) as [b2| |]; cbn [bind] in *; try discriminate. apply IH. exact H.
Qed.

(* the heart of the matter: the run with interleaved exports, queries and refused
   appends stays equivalent to the run of the accepted appends alone *)
Lemma grun_equiv b ops acc b' : grun b ops acc b' ->
  (bcover b -> bcover b') /\
  forall c, bd_equiv b c -> exists c', brun c acc = Ok c' /\ bd_equiv b' c'.
Proof.
  induction 1 as [b|b o b1 ops acc b' Hs Hr [IHc IH]].
  - split; [tauto|]. intros c Hbc. exists c. split; [reflexivity|exact Hbc].
  - destruct (gstep_equiv_cover _ _ _ Hs) as [Hc Hq]. split; [tauto|].
    intros c Hbc. destruct (Hq c Hbc) as (c1 & Hr1 & Hq1). destruct (IH c1 Hq1) as (c' & Hr' & Hq').
    exists c'. split; [|exact Hq']. rewrite (brun_app _ _ _ _ Hr1). exact Hr'.
Qed.

(* ---------- history independence ---------- *)

(* general form: any covered start state, liberal histories; the clean run always
   succeeds and exports the same square (and fails to export iff the real one does) *)
Theorem builder_history_general b0 ops acc b1 : bcover b0 -> grun b0 ops acc b1 ->
  exists b2, brun b0 acc = Ok b2 /\
    forall sq, (exists r, export b1 = Ok (r, sq)) <-> (exists r, export b2 = Ok (r, sq)).
Proof.
  intros Hc Hg. destruct (grun_equiv _ _ _ _ Hg) as [Hc1 Hq].
  destruct (Hq b0 (bd_equiv_refl b0)) as (b2 & Hr & Hq2). exists b2. split; [exact Hr|].
  assert (Hc2 : bcover b2).
  { pose proof (brun_grun _ _ _ Hr) as Hg2. apply grun_equiv in Hg2. tauto. }
  intros sq. split; intros (r & E).
  - eapply export_rel; [exact Hq2|tauto|exact E].
  - eapply export_rel; [apply bd_equiv_sym; exact Hq2|exact Hc2|exact E].
Qed.

Theorem builder_history_strong max thr ops b1 : brun (empty_builder max thr) ops = Ok b1 ->
  exists b2, brun (empty_builder max thr) (accepted_of (empty_builder max thr) ops) = Ok b2 /\
    forall sq, (exists r, export b1 = Ok (r, sq)) <-> (exists r, export b2 = Ok (r, sq)).
Proof.
  intros H. eapply builder_history_general; [apply bcover_empty|apply brun_grun; exact H].
Qed.

(* the statement of C14 for the builder *)
Theorem builder_history_independent max thr ops b1 r1 sq1 b2 r2 sq2 :
  brun (empty_builder max thr) ops = Ok b1 -> export b1 = Ok (r1, sq1) ->
  brun (empty_builder max thr) (accepted_of (empty_builder max thr) ops) = Ok b2 ->
  export b2 = Ok (r2, sq2) ->
  sq1 = sq2.
Proof.
  intros H1 E1 H2 E2. destruct (builder_history_strong _ _ _ _ H1) as (b2' & H2' & Hsq).
  rewrite H2' in H2. inversion H2; subst b2'.
  destruct (proj1 (Hsq sq1) (ex_intro _ r1 E1)) as (r & E). rewrite E in E2. inversion E2. reflexivity.
Qed.

(* ---------- the single steps, as separate statements ---------- *)

(* reachable builders satisfy the invariant *)
Lemma brun_cover b ops b' : bcover b -> brun b ops = Ok b' -> bcover b'.
Proof. intros Hc H. apply brun_grun, grun_equiv in H. tauto. Qed.

Theorem export_idempotent b b' sq b'' sq' : bcover b ->
  export b = Ok (b', sq) -> export b' = Ok (b'', sq') -> sq' = sq.
Proof.
  intros Hc E E'. destruct (export_equiv _ _ _ E) as [Hq _].
  eapply export_rel_eq; [apply bd_equiv_sym; exact Hq|exact Hc|exact E|exact E'].
Qed.

Theorem refused_tx_keeps_square b tx r sq r' sq' : bcover b -> snd (append_tx b tx) = false ->
  export b = Ok (r, sq) -> export (fst (append_tx b tx)) = Ok (r', sq') -> sq' = sq.
Proof.
  intros Hc Hd E E'. eapply export_rel_eq; [apply bd_equiv_sym, append_tx_refused; exact Hd|exact Hc|exact E|exact E'].
Qed.

Theorem refused_blob_tx_keeps_square b t r sq r' sq' : bcover b -> snd (append_blob_tx b t) = false ->
  export b = Ok (r, sq) -> export (fst (append_blob_tx b t)) = Ok (r', sq') -> sq' = sq.
Proof.
  intros Hc Hd E E'. eapply export_rel_eq; [apply bd_equiv_sym, append_blob_tx_refused; exact Hd|exact Hc|exact E|exact E'].
Qed.

Theorem query_keeps_square b o b1 r sq r' sq' :
  match o with BTx _ | BBlobTx _ => False | _ => True end ->
  bcover b -> bstep b o = Ok b1 ->
  export b = Ok (r, sq) -> export b1 = Ok (r', sq') -> sq' = sq.
Proof.
  intros Ho Hc Hs E E'. apply bstep_gstep in Hs.
  assert (Hv : visited b b1) by (destruct o; cbn [gstep] in Hs; tauto).
  destruct (visited_equiv _ _ Hv) as [Hq _].
  eapply export_rel_eq; [apply bd_equiv_sym; exact Hq|exact Hc|exact E|exact E'].
Qed.

Lemma brun_cover_empty max thr ops b : brun (empty_builder max thr) ops = Ok b -> bcover b.
Proof. exact (brun_cover _ _ _ (bcover_empty max thr)). Qed.

Lemma same_decisions b c tx t : bd_equiv b c ->
  snd (append_tx b tx) = snd (append_tx c tx) /\
  snd (append_blob_tx b t) = snd (append_blob_tx c t).
Proof.
  intros H. split; [exact (proj1 (append_tx_equiv b c tx H))|exact (proj1 (append_blob_tx_equiv b c t H))].
Qed.
