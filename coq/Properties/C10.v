(* C10 - Share wire format is byte-exact per the share specification; and the
   share-count / sequence-length part of C09.  Statements only.

   The reference encoders are closed forms written from the share specification with
   no builder, splitter or cursor: Spec/ShareSpec.v ([sparse_spec], [blob_spec],
   [padding_spec]) and Spec/CompactSpec.v ([cshare], [compact_spec_ix]: share j of a
   compact sequence as a function of the stream, the unit start offsets and j). *)
From Coq Require Import List Arith NArith ZArith Bool.
From GS.Model Require Import Base Varint Namespace ShareFmt Blob Sparse Compact Counter Builder.
From GS.Spec Require Import ShareSpec CompactSpec.
From GS.Proofs Require Import BaseLemmas SparseProofs CounterProofs CompactWriterProofs.
Import ListNotations.
Open Scope nat_scope.

(* ================= compact (transaction) shares ================= *)

(* For EVERY list of transactions (any number, any lengths, empty ones included), in
   either compact namespace: creating the splitter, writing the transactions and
   exporting never fails (no error, no fault), the exported shares are byte-for-byte
   the closed form, and Count() before the export is the closed-form share count. *)
Theorem C10_compact_encode : forall ns ver txs,
  length ns = 29 -> is_compact_ns ns = true -> (ver <= 127)%N ->
  exists c0 c c', new_csplitter ns ver = Ok c0 /\ write_txs c0 txs = Ok c /\
    cs_export c = Ok (c', compact_spec_ix ns ver txs) /\
    cs_count c = N.of_nat (cneeded (length (stream txs))).
Proof. exact compact_encode_spec. Qed.
Print Assumptions C10_compact_encode.

(* the same, in the form "whatever the writer returned" *)
Theorem C10_compact_write_spec : forall ns ver, length ns = 29 -> is_compact_ns ns = true -> (ver <= 127)%N ->
  forall txs c0 c, new_csplitter ns ver = Ok c0 -> write_txs c0 txs = Ok c ->
  exists c', cs_export c = Ok (c', compact_spec_ix ns ver txs).
Proof. exact compact_write_spec. Qed.
Print Assumptions C10_compact_write_spec.

Theorem C10_compact_write_total : forall ns ver, length ns = 29 -> is_compact_ns ns = true -> (ver <= 127)%N ->
  forall txs c0, new_csplitter ns ver = Ok c0 -> exists c, write_txs c0 txs = Ok c.
Proof. exact compact_write_total. Qed.
Print Assumptions C10_compact_write_total.

(* the transaction splitter of the square builder: share version 0 *)
Theorem C10_compact_write_spec_v0 : forall ns txs c0 c,
  length ns = 29 -> is_compact_ns ns = true ->
  new_csplitter ns 0 = Ok c0 -> write_txs c0 txs = Ok c ->
  exists c', cs_export c = Ok (c', compact_spec_ix ns 0 txs).
Proof.
  exact (fun ns txs c0 c Hns Hc => compact_write_spec ns 0%N Hns Hc (N.le_0_l 127) txs c0 c).
Qed.
Print Assumptions C10_compact_write_spec_v0.

(* C09 (count): Count() is the closed-form count for whatever was written *)
Theorem C09_compact_count : forall ns ver, length ns = 29 -> is_compact_ns ns = true -> (ver <= 127)%N ->
  forall txs c0 c, new_csplitter ns ver = Ok c0 -> write_txs c0 txs = Ok c ->
  cs_count c = N.of_nat (cneeded (length (stream txs))).
Proof. exact compact_count_spec. Qed.
Print Assumptions C09_compact_count.

(* every share of the closed form has 512 bytes, and there are [cneeded] of them *)
Theorem C10_compact_spec_wf : forall ns ver, length ns = 29 -> forall txs,
  Forall (fun sh => length sh = 512) (compact_spec_ix ns ver txs).
Proof. exact compact_spec_ix_wf. Qed.
Print Assumptions C10_compact_spec_wf.

Theorem C09_compact_spec_length : forall ns ver txs,
  length (compact_spec_ix ns ver txs) = cneeded (length (stream txs)).
Proof. exact compact_spec_ix_length. Qed.
Print Assumptions C09_compact_spec_length.

(* C09 (minimality): [cneeded n] shares hold n stream bytes and no smaller number of
   shares does; k shares hold [coff k] = AvailableBytesFromCompactShares(k) bytes; and
   [cneeded] is CompactSharesNeeded (see also C13_compact_needed_least). *)
Theorem C09_compact_count_minimal : forall n,
  n <= coff (cneeded n) /\ (forall k, n <= coff k -> cneeded n <= k) /\
  (forall k, Z.of_nat (coff k) = available_compact (Z.of_nat k)) /\
  N.of_nat (cneeded n) = compact_shares_needed (N.of_nat n).
Proof. exact cneeded_minimal. Qed.
Print Assumptions C09_compact_count_minimal.

(* C09 (sequence length): the first exported share is a sequence start whose length
   field is the number of length-prefixed transaction bytes (as a uint32); no other
   share starts a sequence *)
Theorem C09_compact_sequence_length : forall ns ver txs sh rest, length ns = 29 -> (ver <= 127)%N ->
  compact_spec_ix ns ver txs = sh :: rest ->
  sh_start sh = true /\ sh_seq_len sh = u32 (lenN (stream txs)) /\
  Forall (fun x => sh_start x = false /\ sh_seq_len x = 0%N) rest.
Proof. exact compact_spec_ix_seq_len. Qed.
Print Assumptions C09_compact_sequence_length.

(* ---- accessors decode exactly the fields of a specified compact share ---- *)
Theorem C10_compact_acc_ns : forall ns ver total j s sts, length ns = 29 ->
  sh_ns (cshare ns ver total j s sts) = ns.
Proof. exact cshare_ns. Qed.
Print Assumptions C10_compact_acc_ns.

Theorem C10_compact_acc_version : forall ns ver total j s sts, length ns = 29 -> (ver <= 127)%N ->
  sh_version (cshare ns ver total j s sts) = ver.
Proof. exact cshare_version. Qed.
Print Assumptions C10_compact_acc_version.

Theorem C10_compact_acc_start : forall ns ver total j s sts, length ns = 29 -> (ver <= 127)%N ->
  sh_start (cshare ns ver total j s sts) = (j =? 0).
Proof. exact cshare_start. Qed.
Print Assumptions C10_compact_acc_start.

Theorem C10_compact_acc_is_compact : forall ns ver total j s sts, length ns = 29 -> is_compact_ns ns = true ->
  sh_is_compact (cshare ns ver total j s sts) = true.
Proof. exact cshare_is_compact. Qed.
Print Assumptions C10_compact_acc_is_compact.

Theorem C10_compact_acc_seq_len : forall ns ver total j s sts, length ns = 29 -> (ver <= 127)%N ->
  (total < 4294967296)%N ->
  sh_seq_len (cshare ns ver total j s sts) = if j =? 0 then total else 0%N.
Proof. exact cshare_seq_len. Qed.
Print Assumptions C10_compact_acc_seq_len.

Theorem C10_compact_acc_signer : forall ns ver total j s sts, length ns = 29 -> (ver <= 127)%N ->
  ver <> 1%N -> sh_signer (cshare ns ver total j s sts) = None.
Proof. exact cshare_signer. Qed.
Print Assumptions C10_compact_acc_signer.

(* payload = the share's chunk of the stream, zero filled *)
Theorem C10_compact_acc_raw_data : forall ns ver total j s sts,
  length ns = 29 -> is_compact_ns ns = true -> (ver <= 127)%N -> ver <> 1%N ->
  sh_raw_data (cshare ns ver total j s sts) = pad_to (ccap j) (cchunk j s).
Proof. exact cshare_raw_data. Qed.
Print Assumptions C10_compact_acc_raw_data.

(* payload from the first unit that starts in the share (nothing if none does) *)
Theorem C10_compact_acc_raw_data_using_reserved : forall ns ver total j s sts,
  length ns = 29 -> is_compact_ns ns = true -> (ver <= 127)%N -> ver <> 1%N ->
  sh_raw_data_using_reserved (cshare ns ver total j s sts) =
  Ok (if cres j s sts =? 0 then []
      else skipn (cres j s sts - chdr j) (pad_to (ccap j) (cchunk j s))).
Proof. exact cshare_raw_data_using_reserved. Qed.
Print Assumptions C10_compact_acc_raw_data_using_reserved.

(* padding test: only a sequence start of length 0 *)
Theorem C10_compact_acc_is_padding : forall ns ver total j s sts,
  length ns = 29 -> is_compact_ns ns = true -> (ver <= 127)%N -> (total < 4294967296)%N ->
  sh_is_padding (cshare ns ver total j s sts) = (j =? 0) && (total =? 0)%N.
Proof. exact cshare_is_padding. Qed.
Print Assumptions C10_compact_acc_is_padding.

(* the reserved bytes field is 0 or an offset inside the share after the header *)
Theorem C10_compact_reserved_range : forall j s sts, cres j s sts = 0 \/ chdr j <= cres j s sts < 512.
Proof. exact cres_cases. Qed.
Print Assumptions C10_compact_reserved_range.

(* all reserved-byte values: ParseReservedBytes accepts exactly 0..511 *)
Theorem C10_parse_reserved_bytes : forall r, (r < 4294967296)%N ->
  parse_reserved_bytes (be32 r) = if (512 <=? r)%N then Err else Ok r.
Proof. exact parse_reserved_bytes_be32. Qed.
Print Assumptions C10_parse_reserved_bytes.

(* ================= info byte: all 256 values ================= *)
Theorem C10_info_byte_laws : forall i,
  info_version i = (b2n i / 2)%N /\ info_start i = N.odd (b2n i) /\
  b2n i = (2 * info_version i + (if info_start i then 1 else 0))%N /\
  (info_version i <= 127)%N /\
  new_info_byte (info_version i) (info_start i) = Ok i.
Proof. exact info_byte_laws. Qed.
Print Assumptions C10_info_byte_laws.

Theorem C10_new_info_byte : forall v st,
  new_info_byte v st = (if (v <=? 127)%N then Ok (info_of v st) else Err) /\
  ((v <= 127)%N -> info_version (info_of v st) = v /\ info_start (info_of v st) = st).
Proof. exact new_info_byte_spec. Qed.
Print Assumptions C10_new_info_byte.

(* ================= sparse (blob) shares ================= *)

(* the blob writer produces exactly the specified encoding *)
Theorem C10_sparse_write_spec : forall b, blob_ok b -> sparse_write b = Ok (blob_spec b).
Proof. exact sparse_write_spec. Qed.
Print Assumptions C10_sparse_write_spec.

Theorem C10_blob_spec_wf : forall b, blob_ok b -> Forall (fun s => length s = 512) (blob_spec b).
Proof. exact blob_spec_wf. Qed.
Print Assumptions C10_blob_spec_wf.

(* accessors on the first share of a blob: namespace, version, start, sequence length,
   signer (version 1 only), payload *)
Theorem C10_sparse_first_accessors : forall ns ver len signer payload,
  length ns = 29 -> is_compact_ns ns = false -> (len < 4294967296)%N ->
  (ver = 0%N /\ signer = []) \/ (ver = 1%N /\ length signer = 20) ->
  let sh := ns ++ [info_of ver true] ++ be32 len ++ signer ++ payload in
  sh_ns sh = ns /\ sh_version sh = ver /\ sh_start sh = true /\ sh_seq_len sh = len /\
  sh_signer sh = (if (ver =? 1)%N then Some signer else None) /\ sh_raw_data sh = payload.
Proof. exact sparse_first_accessors. Qed.
Print Assumptions C10_sparse_first_accessors.

(* accessors on a continuation share *)
Theorem C10_sparse_cont_accessors : forall ns ver payload,
  length ns = 29 -> is_compact_ns ns = false -> (ver <= 127)%N ->
  let sh := ns ++ [info_of ver false] ++ payload in
  sh_ns sh = ns /\ sh_version sh = ver /\ sh_start sh = false /\ sh_seq_len sh = 0%N /\
  sh_signer sh = None /\ sh_raw_data sh = payload.
Proof. exact sparse_cont_accessors. Qed.
Print Assumptions C10_sparse_cont_accessors.

(* the generic header accessors: any share namespace | info | body *)
Theorem C10_acc_ns : forall ns ver st body, length ns = 29 ->
  sh_ns (ns ++ [info_of ver st] ++ body) = ns.
Proof. exact acc_ns. Qed.
Print Assumptions C10_acc_ns.

Theorem C10_acc_version : forall ns ver st body, length ns = 29 -> (ver <= 127)%N ->
  sh_version (ns ++ [info_of ver st] ++ body) = ver.
Proof. exact acc_version. Qed.
Print Assumptions C10_acc_version.

Theorem C10_acc_start : forall ns ver st body, length ns = 29 -> (ver <= 127)%N ->
  sh_start (ns ++ [info_of ver st] ++ body) = st.
Proof. exact acc_start. Qed.
Print Assumptions C10_acc_start.

Theorem C10_acc_compact : forall ns ver st body, length ns = 29 ->
  sh_is_compact (ns ++ [info_of ver st] ++ body) = is_compact_ns ns.
Proof. exact acc_compact. Qed.
Print Assumptions C10_acc_compact.

Theorem C10_acc_seq_len : forall ns ver st body, length ns = 29 -> (ver <= 127)%N ->
  sh_seq_len (ns ++ [info_of ver st] ++ body) = if st then rd32 (firstn 4 body) else 0%N.
Proof. exact acc_seq_len. Qed.
Print Assumptions C10_acc_seq_len.

(* ================= padding shares ================= *)
Theorem C10_namespace_padding_share_spec : forall ns ver, length ns = 29 -> (ver <= 127)%N ->
  namespace_padding_share ns ver = Ok (padding_spec ns ver).
Proof. exact namespace_padding_share_spec. Qed.
Print Assumptions C10_namespace_padding_share_spec.

Theorem C10_namespace_padding_shares_spec : forall ns ver n, length ns = 29 -> (ver <= 127)%N ->
  namespace_padding_shares ns ver n = Ok (repeat (padding_spec ns ver) n).
Proof. exact namespace_padding_shares_spec. Qed.
Print Assumptions C10_namespace_padding_shares_spec.

Theorem C10_padding_spec_length : forall ns ver, length ns = 29 -> length (padding_spec ns ver) = 512.
Proof. exact padding_spec_length. Qed.
Print Assumptions C10_padding_spec_length.

Theorem C10_padding_accessors : forall ns ver, length ns = 29 -> (ver <= 127)%N ->
  sh_ns (padding_spec ns ver) = ns /\ sh_version (padding_spec ns ver) = ver /\
  sh_start (padding_spec ns ver) = true /\ sh_seq_len (padding_spec ns ver) = 0%N /\
  sh_is_padding (padding_spec ns ver) = true.
Proof. exact padding_spec_accessors. Qed.
Print Assumptions C10_padding_accessors.

(* ================= non-vacuity ================= *)
Definition ex_run (ns : namespace) (txs : list bytes) : outcome (list share) :=
  do c0 <- new_csplitter ns 0; do c <- write_txs c0 txs; do r <- cs_export c; Ok (snd r).
Definition shares_eqb (a b : list share) : bool :=
  Nat.eqb (length a) (length b) && forallb (fun p => bytes_eqb (fst p) (snd p)) (combine a b).
Definition ex_agrees (ns : namespace) (txs : list bytes) : bool :=
  match ex_run ns txs with Ok l => shares_eqb l (compact_spec_ix ns 0 txs) | _ => false end.

(* both compact namespaces satisfy the hypotheses *)
Example C10_example_ns : length tx_ns = 29 /\ is_compact_ns tx_ns = true /\
                         length pfb_ns = 29 /\ is_compact_ns pfb_ns = true.
Proof. repeat split; vm_compute; reflexivity. Qed.

(* a unit ending exactly at the end of the first share (474 stream bytes), a unit whose
   length prefix starts the second share, and a unit spanning three shares *)
Definition ex_txs : list bytes := [repeat Byte.x01 472; repeat Byte.x02 10; repeat Byte.x03 1000].
Example C10_example_compact :
  ex_agrees tx_ns ex_txs = true /\ length (stream ex_txs) = 1487 /\
  length (compact_spec_ix tx_ns 0 ex_txs) = 4 /\
  map (fun j => cres j (stream ex_txs) (ustarts 0 (units ex_txs))) [0; 1; 2; 3] = [38; 34; 0; 0] /\
  ustarts 0 (units ex_txs) = [0; 474; 485].
Proof. repeat split; vm_compute; reflexivity. Qed.

(* exact fills: the stream ends exactly at the end of share 0 (474 bytes) and of
   share 1 (474 + 478 bytes); no empty trailing share is exported *)
Example C10_example_exact_fill :
  ex_agrees tx_ns [repeat Byte.x01 472] = true /\
  length (stream [repeat Byte.x01 472]) = 474 /\ length (compact_spec_ix tx_ns 0 [repeat Byte.x01 472]) = 1 /\
  ex_agrees pfb_ns [repeat Byte.x01 472; repeat Byte.x02 476] = true /\
  length (stream [repeat Byte.x01 472; repeat Byte.x02 476]) = 952 /\
  length (compact_spec_ix pfb_ns 0 [repeat Byte.x01 472; repeat Byte.x02 476]) = 2.
Proof. repeat split; vm_compute; reflexivity. Qed.

(* empty list, empty transactions, many units in one share *)
Example C10_example_small :
  ex_agrees tx_ns [] = true /\ compact_spec_ix tx_ns 0 [] = [] /\
  ex_agrees pfb_ns [[]; repeat Byte.x01 470; []; repeat Byte.x02 477; repeat Byte.x05 3000] = true.
Proof. repeat split; vm_compute; reflexivity. Qed.

(* a version 1 blob of 459 bytes: two shares *)
Definition ex_ns : namespace := repeat Byte.x00 27 ++ [Byte.x01; Byte.x07].
Definition ex_blob : blob := mk_blob ex_ns (repeat Byte.x2a 459) 1 (Some (repeat Byte.x09 20)).
Example C10_example_blob : blob_ok ex_blob /\ length (blob_spec ex_blob) = 2.
Proof.
  split; [|vm_compute; reflexivity].
  unfold blob_ok. repeat split; try reflexivity; try (vm_compute; congruence).
  right. split; [reflexivity|]. exists (repeat Byte.x09 20). split; reflexivity.
Qed.
