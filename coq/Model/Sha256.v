(* SHA-256 (FIPS 180-4) over byte lists, standard library only.
   Go anchor: crypto/sha256 as used by celestiaorg/nmt (base hasher of the
   namespaced Merkle tree) and by the RFC-6962 Merkle root of the share
   commitment.  Words are 32-bit values kept in N; every operation that can
   leave the 32-bit range is followed by an explicit truncation [w32]
   (= mod 2^32, stated as [w32_is_mod] in Proofs/NmtProofs.v).
   Definitions only. *)
From GS.Model Require Import Base.
Open Scope N_scope.

Definition mask32 : N := 4294967295.
(* x mod 2^32, computed with a bit mask (N.land_ones) *)
Definition w32 (x : N) : N := N.land x mask32.

Definition add32 (a b : N) : N := w32 (a + b).
Definition not32 (a : N) : N := N.lxor a mask32.
Definition rotr32 (k : N) (x : N) : N := N.lor (N.shiftr x k) (w32 (N.shiftl x (32 - k))).

Definition ch (x y z : N) : N := N.lxor (N.land x y) (N.land (not32 x) z).
Definition maj (x y z : N) : N := N.lxor (N.lxor (N.land x y) (N.land x z)) (N.land y z).
Definition bsig0 (x : N) : N := N.lxor (N.lxor (rotr32 2 x) (rotr32 13 x)) (rotr32 22 x).
Definition bsig1 (x : N) : N := N.lxor (N.lxor (rotr32 6 x) (rotr32 11 x)) (rotr32 25 x).
Definition ssig0 (x : N) : N := N.lxor (N.lxor (rotr32 7 x) (rotr32 18 x)) (N.shiftr x 3).
Definition ssig1 (x : N) : N := N.lxor (N.lxor (rotr32 17 x) (rotr32 19 x)) (N.shiftr x 10).

Definition sha_k : list N := [
  1116352408; 1899447441; 3049323471; 3921009573; 961987163; 1508970993; 2453635748; 2870763221;
  3624381080; 310598401; 607225278; 1426881987; 1925078388; 2162078206; 2614888103; 3248222580;
  3835390401; 4022224774; 264347078; 604807628; 770255983; 1249150122; 1555081692; 1996064986;
  2554220882; 2821834349; 2952996808; 3210313671; 3336571891; 3584528711; 113926993; 338241895;
  666307205; 773529912; 1294757372; 1396182291; 1695183700; 1986661051; 2177026350; 2456956037;
  2730485921; 2820302411; 3259730800; 3345764771; 3516065817; 3600352804; 4094571909; 275423344;
  430227734; 506948616; 659060556; 883997877; 958139571; 1322822218; 1537002063; 1747873779;
  1955562222; 2024104815; 2227730452; 2361852424; 2428436474; 2756734187; 3204031479; 3329325298 ].

Record sha_state := mk_sha {
  va : N; vb : N; vc : N; vd : N; ve : N; vf : N; vg : N; vh : N
}.

Definition sha_init : sha_state :=
  mk_sha 1779033703 3144134277 1013904242 2773480762 1359893119 2600822924 528734635 1541459225.

(* big-endian 32-bit words of a byte string (length a multiple of 4) *)
Fixpoint words_of (l : bytes) : list N :=
  match l with
  | a :: b :: c :: d :: tl => rd32 [a; b; c; d] :: words_of tl
  | _ => []
  end.

(* One round.  [w] is the sliding window of the sixteen most recent schedule
   words, oldest first: its head is W[t]; the word appended is W[t+16]. *)
Definition sha_round (st : sha_state * list N) (k : N) : sha_state * list N :=
  let '(s, w) := st in
  let wt := nth 0 w 0 in
  let t1 := add32 (add32 (add32 (add32 (vh s) (bsig1 (ve s))) (ch (ve s) (vf s) (vg s))) k) wt in
  let t2 := add32 (bsig0 (va s)) (maj (va s) (vb s) (vc s)) in
  let nw := add32 (add32 (add32 (ssig1 (nth 14 w 0)) (nth 9 w 0)) (ssig0 (nth 1 w 0))) wt in
  (mk_sha (add32 t1 t2) (va s) (vb s) (vc s) (add32 (vd s) t1) (ve s) (vf s) (vg s),
   tl w ++ [nw]).

Definition sha_block (s : sha_state) (block : bytes) : sha_state :=
  let '(r, _) := fold_left sha_round sha_k (s, words_of block) in
  mk_sha (add32 (va s) (va r)) (add32 (vb s) (vb r)) (add32 (vc s) (vc r)) (add32 (vd s) (vd r))
         (add32 (ve s) (ve r)) (add32 (vf s) (vf r)) (add32 (vg s) (vg r)) (add32 (vh s) (vh r)).

(* message || 0x80 || zeros || 64-bit big-endian bit length, a multiple of 64 bytes *)
Definition sha_pad (msg : bytes) : bytes :=
  let n := length msg in
  let z := ((64 - (n + 9) mod 64) mod 64)%nat in
  msg ++ [Byte.x80] ++ zeros z ++ be64 (u64 (8 * N.of_nat n)).

(* fuel: the number of bytes still to process (each step consumes 64) *)
Fixpoint sha_blocks (fuel : nat) (s : sha_state) (l : bytes) : sha_state :=
  match fuel with
  | O => s
  | S f =>
    match l with
    | [] => s
    | _ => sha_blocks f (sha_block s (firstn 64 l)) (skipn 64 l)
    end
  end.

Definition sha256 (msg : bytes) : bytes :=
  let p := sha_pad msg in
  let s := sha_blocks (length p) sha_init p in
  be32 (va s) ++ be32 (vb s) ++ be32 (vc s) ++ be32 (vd s) ++
  be32 (ve s) ++ be32 (vf s) ++ be32 (vg s) ++ be32 (vh s).
