(* C07 - Square layout is byte-exact with the specified deterministic layout function.
   Statements only.

   The code model's Construct / Build (Model/Builder.v, mirroring builder.go and square.go:
   share counters, compact and sparse share writers, a cursor kept in the builder, the
   copies of WriteSquare) return exactly what the rule-based specification returns
   (Spec/LayoutSpec.v: closed-form share encoders, closed-form share counts, a stable
   sort, one fold assigning the aligned start indexes, concatenation; side = least power
   of two covering the worst-case estimate with placeholder index 16384 and subtree
   width - 1 reserved padding shares per blob; keep / refuse by that estimate alone).
   The equalities are equalities of outcomes, error cases included. *)
From Coq Require Import List NArith ZArith.
From GS.Model Require Import Base Varint Namespace ShareFmt Blob Counter Arith Proto Builder.
From GS.Spec Require Import ShareSpec CompactSpec LayoutSpec.
From GS.Proofs Require Import SparseProofs LayoutShapeProofs RefinementProofs1 RefinementProofs2 RefinementProofs3.
Import ListNotations.
Open Scope N_scope.

(* (A) Construct.  Conditions: threshold >= 1; maximum square size at most 1024 (any
   value: a non-positive or non-power-of-two maximum is an error on both sides); every
   blob of every blob transaction of the list that decodes is a blob as NewBlob accepts
   it, in a namespace ValidateForBlob accepts, data and signer below 4 GiB together. *)
Theorem C07_construct_refines_layout : forall raws max thr, 1 <= thr -> (max <= 1024)%Z ->
  (forall r t b, In r raws -> unmarshal_blob_tx r = UbtOk t -> In b (btx_blobs t) ->
     blob_ok b /\ validate_for_blob (b_ns b) = true /\ lenN (b_data b) + signer_len b < 4294967296) ->
  construct raws max thr = layout_construct raws max thr.
Proof. exact construct_refines_layout. Qed.
Print Assumptions C07_construct_refines_layout.

(* (B) Build: the square and the list of kept transactions *)
Theorem C07_build_refines_layout : forall raws max thr, 1 <= thr -> (max <= 1024)%Z ->
  (forall r t b, In r raws -> unmarshal_blob_tx r = UbtOk t -> In b (btx_blobs t) ->
     blob_ok b /\ validate_for_blob (b_ns b) = true /\ lenN (b_data b) + signer_len b < 4294967296) ->
  build raws max thr = layout_build raws max thr.
Proof. exact build_refines_layout. Qed.
Print Assumptions C07_build_refines_layout.

(* the same with the hypothesis as a predicate on the list *)
Theorem C07_construct_eq_layout : forall raws max thr, 1 <= thr -> (max <= 1024)%Z -> c07_raws_ok raws ->
  construct raws max thr = layout_construct raws max thr.
Proof. exact construct_eq_layout. Qed.
Print Assumptions C07_construct_eq_layout.

Theorem C07_build_eq_layout : forall raws max thr, 1 <= thr -> (max <= 1024)%Z -> c07_raws_ok raws ->
  build raws max thr = layout_build raws max thr.
Proof. exact build_eq_layout. Qed.
Print Assumptions C07_build_eq_layout.

(* ---- the pieces, for a builder in correspondence with the lists it has accepted ---- *)

(* [corr max thr b normals btxs]: b holds exactly the ordinary transactions [normals], the
   worst-case wrapped PFBs of [btxs] and their elements in input order, and satisfies the
   accounting invariant.  Its running size is the closed-form worst-case estimate. *)
Theorem C07_current_size_is_estimate : forall max thr b normals btxs, 1 <= thr ->
  corr max thr b normals btxs -> bd_cur b = Z.of_N (estimate thr normals btxs).
Proof. exact corr_cur. Qed.
Print Assumptions C07_current_size_is_estimate.

(* AppendTx / AppendBlobTx accept exactly when the estimate of the extended lists fits *)
Theorem C07_append_tx_by_estimate : forall max thr b normals btxs t, 1 <= thr -> corr max thr b normals btxs ->
  snd (append_tx b t) = (estimate thr (normals ++ [t]) btxs <=? max * max) /\
  (snd (append_tx b t) = true -> corr max thr (fst (append_tx b t)) (normals ++ [t]) btxs) /\
  (snd (append_tx b t) = false -> corr max thr (fst (append_tx b t)) normals btxs).
Proof. exact step_tx. Qed.
Print Assumptions C07_append_tx_by_estimate.

Theorem C07_append_blob_tx_by_estimate : forall max thr b normals btxs t, 1 <= thr ->
  corr max thr b normals btxs -> c07_btx_ok t ->
  snd (append_blob_tx b t) = (estimate thr normals (btxs ++ [t]) <=? max * max) /\
  (snd (append_blob_tx b t) = true -> corr max thr (fst (append_blob_tx b t)) normals (btxs ++ [t])) /\
  (snd (append_blob_tx b t) = false -> corr max thr (fst (append_blob_tx b t)) normals btxs).
Proof. exact step_blob_tx. Qed.
Print Assumptions C07_append_blob_tx_by_estimate.

(* Export never fails on such a builder and returns the rule-based layout *)
Theorem C07_export_is_layout : forall max thr b normals btxs, 1 <= thr -> max * max < 2097152 ->
  corr max thr b normals btxs ->
  exists b', export b = Ok (b', layout thr normals btxs).
Proof. exact export_corr. Qed.
Print Assumptions C07_export_is_layout.

(* ---- non-vacuity ---- *)

(* ex_raws: two ordinary transactions, then two blob transactions made by MarshalBlobTx
   (one blob of 2 shares; two blobs of 5 and 2 shares in descending namespace order);
   the hypotheses of the theorems hold for it *)
Example C07_ex_hypotheses : c07_raws_ok ex_raws /\ c07_raws_ok ex_raws_misordered.
Proof. exact ex_raws_ok. Qed.

Example C07_ex_classified :
  map unmarshal_blob_tx ex_raws = [UbtNot; UbtNot; UbtOk ex_btx1; UbtOk ex_btx2].
Proof. vm_compute. reflexivity. Qed.

(* maximum 4, threshold 1: everything fits exactly (estimate 16, side 4); blob a of the first
   transaction at 2, blob a of the second at 4, two padding shares in a's namespace, blob b
   (subtree width 4) at 8, three tail padding shares *)
Example C07_ex_construct :
  construct ex_raws 4 1 = layout_construct ex_raws 4 1 /\
  match construct ex_raws 4 1 with
  | Ok sq => length sq = 16%nat /\
             map sh_ns sq = [tx_ns; pfb_ns;
                             ex_ns Byte.x01; ex_ns Byte.x01; ex_ns Byte.x01; ex_ns Byte.x01;
                             ex_ns Byte.x01; ex_ns Byte.x01;
                             ex_ns Byte.x02; ex_ns Byte.x02; ex_ns Byte.x02; ex_ns Byte.x02; ex_ns Byte.x02;
                             tail_padding_ns; tail_padding_ns; tail_padding_ns]
  | _ => False
  end.
Proof. split; vm_compute; [reflexivity|split; reflexivity]. Qed.

(* maximum 2: Build keeps the two ordinary transactions and the first blob transaction
   (estimate 4) and refuses the second one (estimate 11 > 4) *)
Example C07_ex_build_refuses :
  build ex_raws 2 64 = layout_build ex_raws 2 64 /\
  match build ex_raws 2 64 with
  | Ok (sq, kept) => length sq = 4%nat /\ kept = ex_normals ++ [ex_raw1]
  | _ => False
  end.
Proof. split; vm_compute; [reflexivity|split; reflexivity]. Qed.

(* error cases: the list does not fit; an ordinary transaction after a blob transaction;
   a maximum that is not a power of two *)
Example C07_ex_errors :
  construct ex_raws 2 64 = Err /\ layout_construct ex_raws 2 64 = Err /\
  construct ex_raws_misordered 4 64 = Err /\ layout_construct ex_raws_misordered 4 64 = Err /\
  construct ex_raws 3 64 = Err /\ layout_construct ex_raws 3 64 = Err /\
  build ex_raws 3 64 = Err /\ layout_build ex_raws 3 64 = Err.
Proof. repeat split; vm_compute; reflexivity. Qed.

(* the instances as consequences of the theorems *)
Example C07_ex_instances :
  construct ex_raws 4 1 = layout_construct ex_raws 4 1 /\
  construct ex_raws 4 64 = layout_construct ex_raws 4 64 /\
  build ex_raws 2 64 = layout_build ex_raws 2 64 /\
  construct ex_raws 2 64 = layout_construct ex_raws 2 64 /\
  construct ex_raws_misordered 4 64 = layout_construct ex_raws_misordered 4 64.
Proof. exact ex_refinement_instances. Qed.
