(* share.rawTxSize of the regenerated program against Model/Varint.v *)
From Coq Require Import Lia ZArith NArith List String ZifyN ZifyNat ZifyBool.
From GS.Model Require Import Base Varint ShareFmt Counter Arith Builder Helpers GoLite.
From GS.Proofs Require Import BaseLemmas VarintProofs HelpersProofs GoLiteLemmas.
From GS.Gen Require Import Generated.
From GS.GenProofs Require Import GenLink.
Open Scope string_scope. Open Scope Z_scope.
From GS.GenProofs Require Import GenMoreBase.

(* ---------- share.rawTxSize ---------- *)

Lemma raw_tx_size_gen fuel n : (2 <= fuel)%nat -> 0 <= n < 2^63 ->
  gen_call fuel "share.rawTxSize" I64 [n] = Val [n - Z.of_N (delim_len (Z.to_N n))].
Proof.
  intros Hf Hn. change (2^63) with 9223372036854775808 in Hn.
  destruct fuel as [|fuel]; [lia|]. destruct fuel as [|fuel]; [lia|].
  unfold gen_call. rewrite callf_S. cbn.
  rewrite (wrap_U64_small n) by lia.
  destruct (n <? 0) eqn:E0; [lia|]. cbn.
  assert (Hdl: 1 <= Z.of_N (delim_len (Z.to_N n)) <= 10).
  { unfold delim_len, lenN. pose proof (put_uvarint_length (Z.to_N n)). lia. }
  rewrite wrap_I64_small by lia. reflexivity.
Qed.

Lemma raw_tx_size_sum fuel n : (2 <= fuel)%nat -> 0 <= n < 2^63 ->
  exists r, gen_call fuel "share.rawTxSize" I64 [n] = Val [r] /\
            r + Z.of_N (delim_len (Z.to_N n)) = n /\ n - 10 <= r <= n - 1.
Proof.
  intros Hf Hn. exists (n - Z.of_N (delim_len (Z.to_N n))).
  split; [apply raw_tx_size_gen; assumption|].
  assert (Hdl: 1 <= Z.of_N (delim_len (Z.to_N n)) <= 10).
  { unfold delim_len, lenN. pose proof (put_uvarint_length (Z.to_N n)). lia. }
  lia.
Qed.

