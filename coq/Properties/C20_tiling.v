(* C20, second half - sequence parsing tiles every constructed square.  Statements only.

   The statements are about the rule-based layout [layout thr normals btxs] of
   Spec/LayoutSpec.v (compared with the Go code on every run); they transfer to
   Construct / Build through the refinement construct = layout_construct,
   build = layout_build (C07).  C20_construct_tiled / C20_build_tiled below are the
   statements for layout_construct / layout_build.

   Hypotheses: subtree root threshold >= 1, every blob as NewBlob accepts it in a
   namespace ValidateForBlob accepts (lay_btx_ok), and the worst-case estimate below 2^21
   shares (implied by a maximum side <= 1024; it also keeps every declared sequence length
   inside a uint32, so no separate length hypothesis is needed).

   Vocabulary (Proofs/TilingProofs.v):
     compact_seq ns txs = mk_seq ns (compact_spec_ix ns 0 txs)   the shares of a compact run
     tx_seq normals     = compact_seq tx_ns normals
     pfb_seq ...        = compact_seq pfb_ns (the PFBs wrapped with their real share indexes)
     blob_seq b         = mk_seq (b_ns b) (blob_spec b)          the shares of one blob
     pad_seq ns ver     = mk_seq ns [padding_spec ns ver]        one padding share
     opt_seq l q        = [q] if l is non-empty, [] otherwise
     square_blobs btxs  = the blobs in square order (stable sort by namespace)
     layout_seqs        = tx_seq? ++ pfb_seq? ++ (pad_seq* ++ blob_seq b)* ++ tail pad_seq* *)
From Coq Require Import List NArith ZArith Sorted Permutation.
From GS.Model Require Import Base Namespace ShareFmt Blob Proto Square.
From GS.Spec Require Import ShareSpec CompactSpec LayoutSpec.
From GS.Proofs Require Import SparseProofs ArithProofs LayoutShapeProofs TilingProofs.
Import ListNotations.
Open Scope N_scope.

(* ParseShares on ANY concatenation of well-formed sequences (one sequence-start share of
   the sequence's namespace followed by non-start shares of it) whose lengths pass
   validSequenceLen returns exactly those sequences, minus the padding ones when asked. *)
Theorem C20_parse_wellformed : forall qs ignore_padding,
  Forall (fun q => exists f rest, sq_shares q = f :: rest /\ sh_start f = true /\ sh_ns f = sq_ns q /\
                     Forall (fun s => sh_start s = false /\ sh_ns s = sq_ns q) rest) qs ->
  Forall (fun q => valid_sequence_len q = Ok tt) qs ->
  parse_shares (concat (map sq_shares qs)) ignore_padding =
  Ok (filter (fun s => negb (ignore_padding && seq_is_padding s)) qs).
Proof. exact parse_shares_seqs. Qed.
Print Assumptions C20_parse_wellformed.

(* Item 1.  Parsing succeeds; the sequences, concatenated in order, are the square (consecutive,
   nothing skipped); every sequence is non-empty, begins with a sequence-start share followed
   by non-start shares, carries one namespace, and either is a padding sequence of exactly
   one share or has the number of shares its first share declares (numberOfSharesNeeded:
   CompactSharesNeeded of the declared length for the two compact namespaces,
   SparseSharesNeeded of declared length + signer bytes otherwise). *)
Theorem C20_tiling : forall thr normals btxs, 1 <= thr -> Forall lay_btx_ok btxs ->
  estimate thr normals btxs < 2097152 ->
  let sq := layout thr normals btxs in
  let seqs := layout_seqs thr normals btxs in
  parse_shares sq false = Ok seqs /\ concat (map sq_shares seqs) = sq /\
  Forall (fun q => exists f rest, sq_shares q = f :: rest /\ sh_start f = true /\
            Forall (fun s => sh_start s = false) rest /\
            Forall (fun s => sh_ns s = sq_ns q) (sq_shares q) /\
            ((seq_is_padding q = true /\ rest = []) \/
             (seq_is_padding q = false /\ number_of_shares_needed f = Ok (lenN (sq_shares q))))) seqs.
Proof. exact layout_tiling. Qed.
Print Assumptions C20_tiling.

(* Item 2.  With padding ignored: precisely the transaction sequence (iff there are ordinary
   transactions), the pay-for-blob sequence (iff there are blob transactions) and one sequence
   per blob, in square order: a namespace-sorted permutation of the input's blobs, the order
   in which the layout places them. *)
Theorem C20_sequences : forall thr normals btxs, 1 <= thr -> Forall lay_btx_ok btxs ->
  estimate thr normals btxs < 2097152 ->
  let bs := square_blobs btxs in
  parse_shares (layout thr normals btxs) true =
    Ok (opt_seq normals (mk_seq tx_ns (compact_spec_ix tx_ns 0 normals))
        ++ opt_seq btxs (mk_seq pfb_ns (compact_spec_ix pfb_ns 0 (wrappers (lay_placed thr normals btxs) 0 btxs)))
        ++ map (fun b => mk_seq (b_ns b) (blob_spec b)) bs)
  /\ Permutation bs (concat (map btx_blobs btxs)) /\ StronglySorted blob_le bs
  /\ bs = map lb_blob (lay_placed thr normals btxs).
Proof. exact layout_sequences. Qed.
Print Assumptions C20_sequences.

(* Item 3a.  Any blob NewBlob accepts, share version 0 or 1: the payload of its sequence is the
   blob's data.  For share version 1 the first share's raw data begins after the 20 signer
   bytes (which GetSigner returns), and the declared sequence length is the data's length,
   so the payload is the data in both versions. *)
Theorem C20_blob_payload : forall b, blob_ok b ->
  sequence_raw_data (mk_seq (b_ns b) (blob_spec b)) = Ok (b_data b) /\
  exists f rest, blob_spec b = f :: rest /\ sh_seq_len f = lenN (b_data b) /\
    sh_signer f = b_signer b.
Proof. exact blob_seq_payload. Qed.
Print Assumptions C20_blob_payload.

(* Item 3b.  A compact sequence: the payload is the stream of length-prefixed transactions. *)
Theorem C20_compact_payload : forall ns txs, length ns = 29%nat -> is_compact_ns ns = true -> txs <> [] ->
  lenN (stream txs) < 4294967296 ->
  sequence_raw_data (mk_seq ns (compact_spec_ix ns 0 txs)) = Ok (stream txs).
Proof. exact compact_seq_payload. Qed.
Print Assumptions C20_compact_payload.

(* Item 3, on the square: the payloads of the sequences of C20_sequences. *)
Theorem C20_payloads : forall thr normals btxs, 1 <= thr -> Forall lay_btx_ok btxs ->
  estimate thr normals btxs < 2097152 ->
  (normals <> [] -> sequence_raw_data (tx_seq normals) = Ok (stream normals)) /\
  (btxs <> [] -> sequence_raw_data (pfb_seq thr normals btxs) =
                 Ok (stream (wrappers (lay_placed thr normals btxs) 0 btxs))) /\
  Forall (fun b => sequence_raw_data (blob_seq b) = Ok (b_data b)) (square_blobs btxs).
Proof. exact layout_payloads. Qed.
Print Assumptions C20_payloads.

(* All three items under the hypotheses of C03's layout_shape. *)
Theorem C20_layout_tiled : forall thr normals btxs m, 1 <= thr -> Forall lay_btx_ok btxs ->
  pow2 m -> m <= 1024 -> estimate thr normals btxs <= m * m ->
  square_tiled thr normals btxs (layout thr normals btxs).
Proof. exact layout_tiled. Qed.
Print Assumptions C20_layout_tiled.

(* ... and for the squares layout_construct / layout_build return. *)
Theorem C20_construct_tiled : forall raws max thr sq, 1 <= thr -> (max <= 1024)%Z ->
  layout_construct raws max thr = Ok sq ->
  exists normals btxs, split_ordered false raws [] [] = Some (normals, btxs) /\
    sq = layout thr normals btxs /\
    (Forall lay_btx_ok btxs -> square_tiled thr normals btxs sq).
Proof. exact layout_construct_tiled. Qed.
Print Assumptions C20_construct_tiled.

Theorem C20_build_tiled : forall raws max thr sq kept, 1 <= thr -> (max <= 1024)%Z ->
  layout_build raws max thr = Ok (sq, kept) ->
  exists normals btxs, keep (Z.to_N max * Z.to_N max) thr raws [] [] [] [] = Some (normals, btxs, kept) /\
    sq = layout thr normals btxs /\
    (Forall lay_btx_ok btxs -> square_tiled thr normals btxs sq).
Proof. exact layout_build_tiled. Qed.
Print Assumptions C20_build_tiled.

(* ---- non-vacuity ----
   Two ordinary transactions of 3 bytes, one blob transaction (500 byte PFB) carrying a
   2000 byte share version 0 blob in namespace ..02 and a 600 byte share version 1 blob with
   a 20 byte signer in namespace ..01; thr = 1.  Estimate 14, side 4, 16 shares:
   tx | pfb pfb | reserved padding | v1 blob (2) | 2 padding shares of its namespace and
   version | v0 blob (5) | 3 tail padding shares. *)
Example C20_example_hyps : 1 <= 1 /\ Forall lay_btx_ok tl_btxs /\ estimate 1 tl_normals tl_btxs < 2097152.
Proof. destruct tl_hyps as (H1 & H2 & _ & _ & _ & H6). repeat split; assumption. Qed.

Definition seq_summary (o : outcome (list sequence)) : option (list (namespace * nat * bool)) :=
  match o with
  | Ok l => Some (map (fun q => (sq_ns q, length (sq_shares q), seq_is_padding q)) l)
  | _ => None
  end.

(* (namespace, share count, padding flag) of every parsed sequence *)
Example C20_example_all :
  seq_summary (parse_shares (layout 1 tl_normals tl_btxs) false) =
  Some [(tx_ns, 1%nat, false); (pfb_ns, 2%nat, false);
        (primary_reserved_padding_ns, 1%nat, true);
        (ex_ns Byte.x01, 2%nat, false); (ex_ns Byte.x01, 1%nat, true); (ex_ns Byte.x01, 1%nat, true);
        (ex_ns Byte.x02, 5%nat, false);
        (tail_padding_ns, 1%nat, true); (tail_padding_ns, 1%nat, true); (tail_padding_ns, 1%nat, true)].
Proof. vm_compute. reflexivity. Qed.

Example C20_example_data :
  seq_summary (parse_shares (layout 1 tl_normals tl_btxs) true) =
  Some [(tx_ns, 1%nat, false); (pfb_ns, 2%nat, false);
        (ex_ns Byte.x01, 2%nat, false); (ex_ns Byte.x02, 5%nat, false)] /\
  parse_shares (layout 1 tl_normals tl_btxs) true =
  Ok [tx_seq tl_normals; pfb_seq 1 tl_normals tl_btxs; blob_seq tl_blob_v1; blob_seq tl_blob_v0].
Proof. split; vm_compute; reflexivity. Qed.

(* the payloads; the version 1 blob's payload is its 600 data bytes, its signer is reported
   by the first share *)
Example C20_example_payloads :
  match parse_shares (layout 1 tl_normals tl_btxs) true with
  | Ok [t; p; b1; b0] =>
    sequence_raw_data t = Ok (stream tl_normals) /\
    sequence_raw_data p = Ok (stream (wrappers (lay_placed 1 tl_normals tl_btxs) 0 tl_btxs)) /\
    sequence_raw_data b1 = Ok (b_data tl_blob_v1) /\ sequence_raw_data b0 = Ok (b_data tl_blob_v0) /\
    option_map sh_signer (hd_error (sq_shares b1)) = Some (b_signer tl_blob_v1) /\
    map lb_index (lay_placed 1 tl_normals tl_btxs) = [4; 8]
  | _ => False
  end.
Proof. vm_compute. repeat split; reflexivity. Qed.

Example C20_example_tiled : square_tiled 1 tl_normals tl_btxs (layout 1 tl_normals tl_btxs).
Proof. exact tl_tiled. Qed.
