(* Compact (transaction) shares: the writer model (CompactShareSplitter over the
   share builder) produces exactly the indexed closed form [compact_spec_ix] (C10,
   compact half); the share count is [cneeded], it is minimal, and the sequence
   length field is the stream length (C09, count / length part); accessor laws on
   the specified compact shares; info byte laws for all 256 info bytes. *)
From Coq Require Import List Arith NArith ZArith Lia Bool.
From Coq Require Import ZifyN ZifyNat ZifyBool.
From GS.Model Require Import Base Varint Namespace ShareFmt Blob Sparse Compact Counter Builder.
From GS.Spec Require Import ShareSpec CompactSpec.
From GS.Proofs Require Import BaseLemmas VarintProofs SparseProofs CounterProofs.
Import ListNotations.

Ltac Zify.zify_post_hook ::= Z.div_mod_to_equations.
Open Scope nat_scope.

(* ---------- arithmetic of offsets and capacities ---------- *)
Lemma coff_S j : coff (S j) = coff j + ccap j.
Proof. destruct j as [|k]; cbn [coff ccap]; lia. Qed.

Lemma chdr_ccap j : chdr j + ccap j = 512.
Proof. destruct j; reflexivity. Qed.

Lemma ccap_bounds j : 474 <= ccap j <= 478.
Proof. destruct j; cbn [ccap]; lia. Qed.

Lemma chdr_bounds j : 34 <= chdr j <= 38.
Proof. destruct j; cbn [chdr]; lia. Qed.

Lemma chdr_eq j : chdr j = if j =? 0 then 38 else 34.
Proof. destruct j; reflexivity. Qed.

Lemma coff_mono i j : i < j -> coff i + ccap i <= coff j.
Proof. intros H. destruct i as [|i]; destruct j as [|j]; cbn [coff ccap]; lia. Qed.

Lemma coff_0_inv j : coff j = 0 -> j = 0.
Proof. destruct j; cbn [coff]; [reflexivity|lia]. Qed.

(* coff is the number of stream bytes k shares hold (AvailableBytesFromCompactShares) *)
Lemma coff_available k : Z.of_nat (coff k) = available_compact (Z.of_nat k).
Proof.
  unfold available_compact. destruct k as [|k]; [reflexivity|].
  cbn [coff]. destruct (Z.of_nat (S k) <=? 0)%Z eqn:E0; [lia|].
  destruct (Z.of_nat (S k) =? 1)%Z eqn:E1; lia.
Qed.

(* the pending share index determines the share count *)
Lemma cneeded_pending j L : coff j <= L < coff j + ccap j ->
  cneeded L = j + (if L =? coff j then 0 else 1).
Proof.
  intros H. unfold cneeded. destruct j as [|k]; cbn [coff ccap] in *.
  - destruct (L =? 0) eqn:E0; [reflexivity|]. replace (L <=? 474) with true by lia. reflexivity.
  - replace (L =? 0) with false by lia.
    destruct (L <=? 474) eqn:E2; destruct (L =? 474 + 478 * k) eqn:E1; lia.
Qed.

Lemma cneeded_compact n : N.of_nat (cneeded n) = compact_shares_needed (N.of_nat n).
Proof.
  unfold cneeded, compact_shares_needed.
  destruct (n =? 0) eqn:E0.
  - replace (N.of_nat n =? 0)%N with true by lia. reflexivity.
  - replace (N.of_nat n =? 0)%N with false by lia.
    destruct (n <=? 474) eqn:E1.
    + destruct (N.of_nat n <? 474)%N eqn:E2; [reflexivity|].
      assert (n = 474) by lia. subst n. vm_compute. reflexivity.
    + replace (N.of_nat n <? 474)%N with false by lia.
      destruct (0 <? (N.of_nat n - 474) mod 478)%N eqn:E3; lia.
Qed.

(* minimality: cneeded n shares hold n bytes, and no smaller number does *)
Lemma cneeded_holds n : n <= coff (cneeded n).
Proof.
  unfold cneeded. destruct (n =? 0) eqn:E0; [cbn [coff]; lia|].
  destruct (n <=? 474) eqn:E1; [cbn [coff]; lia|].
  cbn [coff Nat.add]. lia.
Qed.

Lemma cneeded_least n k : n <= coff k -> cneeded n <= k.
Proof.
  intros H. unfold cneeded. destruct (n =? 0) eqn:E0; [lia|].
  destruct k as [|k]; cbn [coff] in H; [lia|].
  destruct (n <=? 474) eqn:E1; [lia|]. lia.
Qed.

(* ---------- list helpers ---------- *)
Lemma skipn_app_exact {A} n (a b : list A) : length a = n -> skipn n (a ++ b) = b.
Proof. intros <-. rewrite skipn_app, Nat.sub_diag, skipn_all, skipn_O. reflexivity. Qed.

Lemma firstn_app_exact {A} n (a b : list A) : length a = n -> firstn n (a ++ b) = a.
Proof. intros <-. rewrite firstn_app, Nat.sub_diag, firstn_all, firstn_O, app_nil_r. reflexivity. Qed.

Lemma set_at_app_exact off (a v w t : bytes) : length a = off -> length w = length v ->
  set_at off v (a ++ w ++ t) = a ++ v ++ t.
Proof.
  intros Ha Hw. unfold set_at. rewrite firstn_app_exact by exact Ha. do 2 f_equal.
  rewrite app_assoc. apply skipn_app_exact. rewrite app_length. lia.
Qed.

Lemma find_app {A} (f : A -> bool) l1 l2 :
  find f (l1 ++ l2) = match find f l1 with Some x => Some x | None => find f l2 end.
Proof.
  induction l1 as [|x l1 IH]; [reflexivity|]. cbn [app find]. destruct (f x); [reflexivity|exact IH].
Qed.

Lemma find_none_lt c sts : Forall (fun x => x < c) sts -> find (fun u => Nat.leb c u) sts = None.
Proof.
  induction 1 as [|x l Hx _ IH]; [reflexivity|]. cbn [find].
  replace (Nat.leb c x) with false by lia. exact IH.
Qed.

(* ---------- chunks and reserved bytes of the closed form ---------- *)
Lemma length_cchunk j s : length (cchunk j s) = Nat.min (ccap j) (length s - coff j).
Proof. unfold cchunk. rewrite firstn_length, skipn_length. reflexivity. Qed.

Lemma cchunk_stable i s u : coff i + ccap i <= length s -> cchunk i (s ++ u) = cchunk i s.
Proof.
  intros H. unfold cchunk. rewrite skipn_app. replace (coff i - length s) with 0 by lia.
  rewrite skipn_O, firstn_app, skipn_length. replace (ccap i - (length s - coff i)) with 0 by lia.
  rewrite firstn_O, app_nil_r. reflexivity.
Qed.

(* the chunk of the share being filled: what is there, then the head of the new data *)
Lemma cchunk_split j t d : coff j <= length t -> length t - coff j <= ccap j ->
  cchunk j (t ++ d) = skipn (coff j) t ++ firstn (ccap j - (length t - coff j)) d.
Proof.
  intros H1 H2. unfold cchunk. rewrite skipn_app. replace (coff j - length t) with 0 by lia.
  rewrite skipn_O, firstn_app, skipn_length. rewrite firstn_all2 by (rewrite skipn_length; lia).
  reflexivity.
Qed.

Lemma cchunk_partial j s : length s - coff j <= ccap j -> cchunk j s = skipn (coff j) s.
Proof. intros H. unfold cchunk. apply firstn_all2. rewrite skipn_length. exact H. Qed.

Lemma cres_zero i s sts : Forall (fun x => x < coff i) sts -> cres i s sts = 0.
Proof. intros H. unfold cres. rewrite find_none_lt by exact H. reflexivity. Qed.

Lemma cres_lt j s sts : cres j s sts < 512.
Proof.
  unfold cres. destruct (find _ sts) as [u|] eqn:E; [|lia].
  destruct (Nat.ltb u (coff j + length (cchunk j s))) eqn:E1; [|lia].
  rewrite length_cchunk in E1. pose proof (chdr_ccap j). pose proof (ccap_bounds j). lia.
Qed.

(* a completely filled share keeps its reserved bytes when a unit is appended *)
Lemma cres_stable i s sts u : coff i + ccap i <= length s ->
  cres i (s ++ u) (sts ++ [length s]) = cres i s sts.
Proof.
  intros H. unfold cres. rewrite find_app, cchunk_stable by exact H.
  destruct (find _ sts) as [u0|] eqn:E; [reflexivity|].
  cbn [find]. replace (Nat.leb (coff i) (length s)) with true by lia.
  rewrite length_cchunk. replace (Nat.ltb (length s) _) with false by lia. reflexivity.
Qed.

(* the share being filled: its reserved bytes are set by the first unit that starts in it *)
Lemma cres_pending_step j s sts u :
  coff j <= length s < coff j + ccap j -> Forall (fun x => x < length s) sts -> 0 < length u ->
  cres j (s ++ u) (sts ++ [length s]) =
  if cres j s sts =? 0 then chdr j + (length s - coff j) else cres j s sts.
Proof.
  intros H Hsts Hu. unfold cres. rewrite find_app.
  destruct (find _ sts) as [u0|] eqn:E.
  - apply find_some in E. destruct E as [Hin Hle]. rewrite Forall_forall in Hsts. specialize (Hsts u0 Hin).
    rewrite !length_cchunk, app_length.
    replace (Nat.ltb u0 _) with true by lia. replace (Nat.ltb u0 _) with true by lia.
    pose proof (chdr_bounds j). replace (chdr j + (u0 - coff j) =? 0) with false by lia. reflexivity.
  - cbn [find]. replace (Nat.leb (coff j) (length s)) with true by lia.
    rewrite length_cchunk, app_length. replace (Nat.ltb (length s) _) with true by lia.
    reflexivity.
Qed.

Lemma cshare_stable ns ver total i s sts u : coff i + ccap i <= length s ->
  cshare ns ver total i (s ++ u) (sts ++ [length s]) = cshare ns ver total i s sts.
Proof. intros H. unfold cshare. rewrite cres_stable, cchunk_stable by exact H. reflexivity. Qed.

Lemma cshare_total_cont ns ver t t' i s sts : cshare ns ver t (S i) s sts = cshare ns ver t' (S i) s sts.
Proof. reflexivity. Qed.

Lemma length_cshare ns ver total j s sts : length ns = 29 -> length (cshare ns ver total j s sts) = 512.
Proof.
  intros Hns. unfold cshare. rewrite !app_length, Hns, length_be32, length_pad_to
    by (rewrite length_cchunk; lia).
  destruct j; cbn [Nat.eqb length ccap]; reflexivity.
Qed.

(* ---------- the writer ---------- *)
Section Writer.
  Variables (ns : namespace) (ver : N).
  Hypothesis Hns : length ns = 29.
  Hypothesis Hc : is_compact_ns ns = true.
  Hypothesis Hver : (ver <= 127)%N.

  (* header of a pending compact share up to, and including, the reserved bytes *)
  Definition cpre (first : bool) : bytes := ns ++ [info_of ver first] ++ (if first then zeros 4 else []).
  Definition chead (first : bool) (res : nat) : bytes := cpre first ++ be32 (N.of_nat res).

  Lemma length_cpre first : length (cpre first) = if first then 34 else 30.
  Proof. unfold cpre. rewrite !app_length, Hns. destruct first; reflexivity. Qed.

  Lemma length_chead first res : length (chead first res) = if first then 38 else 34.
  Proof. unfold chead. rewrite app_length, length_cpre, length_be32. destruct first; reflexivity. Qed.

  Lemma length_chead_j j res : length (chead (j =? 0) res) = chdr j.
  Proof. rewrite length_chead, chdr_eq. reflexivity. Qed.

  Lemma cshare_chead j s sts :
    cshare ns ver 0 j s sts = chead (j =? 0) (cres j s sts) ++ pad_to (ccap j) (cchunk j s).
  Proof.
    unfold cshare, chead, cpre. rewrite <- !app_assoc. destruct j; reflexivity.
  Qed.

  Lemma new_builder_compact first :
    new_builder ns ver first = Ok (mk_sb ns ver first true (chead first 0)).
  Proof.
    unfold new_builder. rewrite new_info_byte_ok by exact Hver. cbn [bind]. rewrite Hc.
    unfold chead, cpre. rewrite <- !app_assoc. reflexivity.
  Qed.

  Lemma maybe_write_reserved_spec (first : bool) res rest :
    res < 512 -> (if first then 38 else 34) + length rest < 512 ->
    sb_maybe_write_reserved (mk_sb ns ver first true (chead first res ++ rest)) =
    Ok (mk_sb ns ver first true
          (chead first (if res =? 0 then (if first then 38 else 34) + length rest else res) ++ rest)).
  Proof.
    intros Hres Hlen. unfold sb_maybe_write_reserved, sb_reserved_index.
    cbn [sb_compact negb sb_first sb_raw].
    assert (Hpre : length (cpre first) = if first then 34 else 30) by apply length_cpre.
    assert (Hraw : length (chead first res ++ rest) = (if first then 38 else 34) + length rest)
      by (rewrite app_length, length_chead; reflexivity).
    rewrite Hraw.
    replace (Nat.ltb _ _) with false by (destruct first; lia).
    unfold chead at 1. rewrite <- app_assoc. rewrite skipn_app_exact by exact Hpre.
    rewrite firstn_app_exact by apply length_be32.
    unfold parse_reserved_bytes. rewrite length_be32. cbn [Nat.eqb negb].
    rewrite rd32_be32 by lia. replace (512 <=? N.of_nat res)%N with false by lia. cbn [bind].
    destruct (res =? 0) eqn:E0.
    - replace (N.of_nat res =? 0)%N with true by lia. cbn [negb].
      unfold lenN. rewrite Hraw. replace (512 <=? N.of_nat _)%N with false by lia.
      unfold sb_with_raw. cbn [sb_ns sb_ver sb_first sb_compact sb_raw].
      unfold chead. rewrite <- !app_assoc. rewrite set_at_app_exact by (exact Hpre || reflexivity).
      reflexivity.
    - replace (N.of_nat res =? 0)%N with false by lia. reflexivity.
  Qed.

  (* completed shares and the pending builder after [j] shares have been filled *)
  Definition cshares (j : nat) (s : bytes) (sts : list nat) : list share :=
    map (fun i => cshare ns ver 0 i s sts) (seq 0 j).
  Definition cpending (j : nat) (res : nat) (payload : bytes) : sbuilder :=
    mk_sb ns ver (j =? 0) true (chead (j =? 0) res ++ payload).

  Lemma cshares_S j s sts : cshares (S j) s sts = cshares j s sts ++ [cshare ns ver 0 j s sts].
  Proof. unfold cshares. rewrite seq_S, map_app. reflexivity. Qed.

  Lemma length_cshares j s sts : length (cshares j s sts) = j.
  Proof. unfold cshares. rewrite map_length, seq_length. reflexivity. Qed.

  (* stacking a full pending share *)
  Lemma stack_full j s sts rng done :
    length s - coff j = ccap j -> coff j <= length s ->
    Forall (fun x => x < coff (S j)) sts ->
    cs_stack_pending (mk_cs (cshares j s sts) (cpending j (cres j s sts) (cchunk j s)) ns ver done rng) =
    Ok (mk_cs (cshares (S j) s sts) (cpending (S j) (cres (S j) s sts) (skipn (coff (S j)) s)) ns ver done rng).
  Proof.
    intros Hfull Hle Hsts. unfold cs_stack_pending. cbn [cs_b cs_ns cs_ver cs_shares cs_done cs_ranges].
    assert (Hlc : length (cchunk j s) = ccap j) by (rewrite length_cchunk; lia).
    rewrite sb_build_ok.
    2:{ unfold cpending. cbn [sb_raw]. rewrite app_length, length_chead_j, Hlc. apply chdr_ccap. }
    cbn [bind]. rewrite new_builder_compact. cbn [bind]. unfold cs_with.
    cbn [cs_b cs_ns cs_ver cs_shares cs_done cs_ranges]. f_equal. f_equal.
    - rewrite cshares_S. f_equal. f_equal. unfold cpending. cbn [sb_raw].
      rewrite cshare_chead, pad_to_full by exact Hlc. reflexivity.
    - unfold cpending. cbn [Nat.eqb]. rewrite cres_zero by exact Hsts.
      rewrite skipn_all2 by (rewrite coff_S; lia). rewrite app_nil_r. reflexivity.
  Qed.

  (* the loop of write: [t] is the stream already in the shares, [d] the data still
     to be written, [s] = t ++ d the stream once the write is complete *)
  Lemma cs_write_loop_spec : forall fuel j t d s sts rng,
    s = t ++ d ->
    coff j <= length t < coff j + ccap j ->
    Forall (fun x => x <= length t) sts ->
    length d < fuel ->
    exists j',
      cs_write_loop fuel (mk_cs (cshares j s sts) (cpending j (cres j s sts) (skipn (coff j) t)) ns ver false rng) d
      = Ok (mk_cs (cshares j' s sts) (cpending j' (cres j' s sts) (skipn (coff j') s)) ns ver false rng)
      /\ coff j' <= length s <= coff j' + ccap j'.
  Proof.
    induction fuel as [|f IH]; intros j t d s sts rng Hs Hj Hsts Hfuel; [lia|].
    cbn [cs_write_loop cs_b].
    pose proof (chdr_ccap j) as Hhc.
    assert (Hraw : length (sb_raw (cpending j (cres j s sts) (skipn (coff j) t))) = chdr j + (length t - coff j)).
    { unfold cpending. cbn [sb_raw]. rewrite app_length, length_chead_j, skipn_length. reflexivity. }
    destruct (Nat.le_gt_cases (length d) (ccap j - (length t - coff j))) as [Hfit|Hover].
    - rewrite sb_add_data_fit by (rewrite Hraw; lia).
      exists j. split.
      + unfold cs_with. cbn [cs_b cs_ns cs_ver cs_shares cs_done cs_ranges]. f_equal. f_equal.
        unfold cpending, sb_with_raw. cbn [sb_ns sb_ver sb_first sb_compact sb_raw]. f_equal.
        rewrite <- app_assoc. f_equal. subst s. rewrite skipn_app.
        replace (coff j - length t) with 0 by lia. rewrite skipn_O. reflexivity.
      + subst s. rewrite app_length. lia.
    - rewrite sb_add_data_over by (rewrite Hraw; lia). rewrite Hraw.
      replace (512 - (chdr j + (length t - coff j))) with (ccap j - (length t - coff j)) by lia.
      set (left := ccap j - (length t - coff j)) in *.
      assert (Hchunk : cchunk j s = skipn (coff j) t ++ firstn left d).
      { subst s. apply cchunk_split; lia. }
      assert (Hlf : length (firstn left d) = left) by (rewrite firstn_length; lia).
      assert (E1 : cs_with (mk_cs (cshares j s sts) (cpending j (cres j s sts) (skipn (coff j) t)) ns ver false rng)
                     (cs_shares (mk_cs (cshares j s sts) (cpending j (cres j s sts) (skipn (coff j) t)) ns ver false rng))
                     (sb_with_raw (cpending j (cres j s sts) (skipn (coff j) t))
                        (sb_raw (cpending j (cres j s sts) (skipn (coff j) t)) ++ firstn left d))
                     (cs_done (mk_cs (cshares j s sts) (cpending j (cres j s sts) (skipn (coff j) t)) ns ver false rng))
                   = mk_cs (cshares j s sts) (cpending j (cres j s sts) (cchunk j s)) ns ver false rng).
      { unfold cs_with. cbn [cs_b cs_ns cs_ver cs_shares cs_done cs_ranges]. f_equal.
        unfold cpending, sb_with_raw. cbn [sb_ns sb_ver sb_first sb_compact sb_raw]. f_equal.
        rewrite Hchunk, <- app_assoc. reflexivity. }
      rewrite E1. clear E1.
      assert (Hst : s = (t ++ firstn left d) ++ skipn left d)
        by (rewrite <- app_assoc, firstn_skipn; exact Hs).
      assert (Hlt : length (t ++ firstn left d) = coff (S j)).
      { rewrite app_length, Hlf, coff_S. unfold left. lia. }
      rewrite stack_full.
      2:{ subst s. rewrite app_length. lia. }
      2:{ subst s. rewrite app_length. lia. }
      2:{ eapply Forall_impl; [|exact Hsts]. cbn beta. intros x Hx. rewrite coff_S. lia. }
      cbn [bind].
      destruct (IH (S j) (t ++ firstn left d) (skipn left d) s sts rng Hst) as (j' & E & B).
      { rewrite Hlt. pose proof (ccap_bounds (S j)). lia. }
      { eapply Forall_impl; [|exact Hsts]. cbn beta. intros x Hx. rewrite app_length. lia. }
      { rewrite skipn_length. pose proof (ccap_bounds j). lia. }
      exists j'. split; [|exact B]. rewrite <- E. do 2 f_equal.
      rewrite skipn_all2 by lia. rewrite skipn_all2 by (rewrite Hst, app_length; lia). reflexivity.
  Qed.
