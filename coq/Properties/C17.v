(* C17 - Read-only operations do not modify their inputs and are race-free.
   Statements only.

   What is proved here, on the explicit-memory model (Model/Mem.v: heap of blocks,
   slices = (block, offset, len, cap), in-place append within capacity, access log):
     - ParseBlobs, Sequence.RawData, extractRawData, parseDelimiter (in the context it
       is called from) and ParseTxs leave every pre-existing block unchanged and write
       only to blocks they allocated - for EVERY heap, EVERY list of views (any blocks,
       offsets, capacities, overlapping or adjacent), every allocator growth policy;
     - ParseBlobs on 512-byte views returns what the pure model (Model/Sparse.v)
       returns on the bytes the views denote;
     - the code before the repair of defect D7 does overwrite its input (witness);
     - threads that keep the discipline "write only what you allocated" never conflict,
       leave the shared blocks unchanged and compute their solo results, under ANY
       interleaving of their atomic steps; N concurrent ParseBlobs calls are such threads.
   Not proved (partial): the Go memory model and scheduler are not formalised; for all
   other read paths the Gallina model is pure by construction and the tie is the arena /
   race-detector oracle of the correspondence check. *)
From Coq Require Import List NArith.
From GS.Model Require Import Base Varint Namespace ShareFmt Blob Sparse Compact Mem.
From GS.Proofs Require Import MemProofs.
Import ListNotations.
Open Scope nat_scope.

(* [run_read_only m h] : started in heap h with an empty log, the final heap restricted to
   the initial block ids equals h, and every W entry of the log targets a block id that
   did not exist in h. *)

Theorem C17_parse_blobs_mem_readonly : forall g h views,
  run_read_only (parse_blobs_mem g views) h /\
  (Forall (view_ok h) views ->
   snd (parse_blobs_mem g views (mk_st h [])) = parse_blobs (map (mread_bytes h) views)).
Proof. exact parse_blobs_mem_readonly. Qed.
Print Assumptions C17_parse_blobs_mem_readonly.

Theorem C17_sequence_raw_data_mem_readonly : forall g h views,
  run_read_only (sequence_raw_data_mem g views) h.
Proof. exact sequence_raw_data_mem_readonly. Qed.
Print Assumptions C17_sequence_raw_data_mem_readonly.

Theorem C17_extract_raw_data_mem_readonly : forall g h views,
  run_read_only (extract_raw_data_mem g false views nil_slice) h.
Proof. exact extract_raw_data_mem_readonly. Qed.
Print Assumptions C17_extract_raw_data_mem_readonly.

(* parseDelimiter writes zero padding behind input[:l]; harmless whenever the input lives
   in a block that did not exist initially (or has no capacity) ... *)
Theorem C17_parse_delimiter_mem_readonly : forall g n0 input st,
  n0 <= length (st_heap st) -> safe n0 input -> Forall (wfresh n0) (st_log st) ->
  firstn n0 (st_heap (fst (parse_delimiter_mem g input st))) = firstn n0 (st_heap st) /\
  Forall (wfresh n0) (st_log (fst (parse_delimiter_mem g input st))).
Proof. exact parse_delimiter_mem_readonly. Qed.
Print Assumptions C17_parse_delimiter_mem_readonly.

(* ... which is the case in ParseTxs: its input is the buffer built by extractRawData *)
Theorem C17_parse_txs_mem_readonly : forall g h views,
  run_read_only (parse_txs_mem g views) h.
Proof. exact parse_txs_mem_readonly. Qed.
Print Assumptions C17_parse_txs_mem_readonly.

(* the model can express the defect: the pre-fix parser changes a pre-existing block *)
Theorem C17_parse_blobs_mem_legacy_refuted :
  exists (h : heap) (views : list slice),
    Forall (view_ok h) views /\
    (exists v1 v2, In v1 views /\ In v2 views /\ sl_blk v1 = sl_blk v2 /\ sl_off v2 = sl_off v1 + sl_len v1) /\
    let st' := fst (parse_blobs_mem_legacy grow_double views (mk_st h [])) in
    first_diff 0 (hblock h 0) (hblock (st_heap st') 0) = Some 512 /\
    firstn (length h) (st_heap st') <> h /\
    log_writes_below (length h) (st_log st') = true /\
    firstn (length h) (st_heap (fst (parse_blobs_mem grow_double views (mk_st h [])))) = h.
Proof. exact parse_blobs_mem_legacy_refuted. Qed.
Print Assumptions C17_parse_blobs_mem_legacy_refuted.

(* any interleaving of disciplined threads *)
Theorem C17_read_only_interleave :
  forall (L : Type) (Inv : L -> Prop) (h0 : heap) (ths : list (list (@tstep L) * @tconf L)) (sched : list nat),
    Forall (thread_ok Inv (length h0)) ths ->
    let final := run_sched (length h0) sched (h0, ths) in
    fst final = h0 /\
    length (snd final) = length ths /\
    (forall i rest c, nth_error (snd final) i = Some (rest, c) ->
       exists steps c0 done, nth_error ths i = Some (steps, c0) /\ steps = done ++ rest /\
         run_alone (length h0) h0 done c0 = (h0, c)) /\
    (forall i j ri ci rj cj a b,
       nth_error (snd final) i = Some (ri, ci) -> nth_error (snd final) j = Some (rj, cj) ->
       In a (tc_log ci) -> In b (tc_log cj) -> ~ conflict (length h0) i a j b).
Proof. intros L Inv. exact (read_only_interleave Inv). Qed.
Print Assumptions C17_read_only_interleave.

Theorem C17_read_only_interleave_complete :
  forall (L : Type) (Inv : L -> Prop) h0 (ths : list (list (@tstep L) * @tconf L)) sched i steps c0 c,
    Forall (thread_ok Inv (length h0)) ths ->
    nth_error ths i = Some (steps, c0) ->
    nth_error (snd (run_sched (length h0) sched (h0, ths))) i = Some ([], c) ->
    run_alone (length h0) h0 steps c0 = (h0, c).
Proof. intros L Inv. exact (read_only_interleave_complete Inv). Qed.
Print Assumptions C17_read_only_interleave_complete.

(* N concurrent ParseBlobs calls, one atomic step per share *)
Theorem C17_parse_blobs_concurrent : forall g h0 views n sched,
  Forall (view_ok h0) views ->
  let final := run_sched (length h0) sched (h0, repeat (pb_thread g views, pb_start) n) in
  fst final = h0 /\
  (forall i c, nth_error (snd final) i = Some ([], c) ->
     tc_loc c = PBDone (parse_blobs (map (mread_bytes h0) views))) /\
  (forall i j ri ci rj cj a b,
     nth_error (snd final) i = Some (ri, ci) -> nth_error (snd final) j = Some (rj, cj) ->
     In a (tc_log ci) -> In b (tc_log cj) -> ~ conflict (length h0) i a j b).
Proof. exact parse_blobs_concurrent. Qed.
Print Assumptions C17_parse_blobs_concurrent.

(* non-vacuity *)
Example C17_witness_repaired :
  let r := parse_blobs_mem grow_double d7_views (mk_st [d7_arena] []) in
  st_heap (fst r) <> [d7_arena] /\
  firstn 1 (st_heap (fst r)) = [d7_arena] /\
  snd r = Ok [d7_blob] /\
  log_writes_below 1 (st_log (fst r)) = false /\
  existsb (fun a => match a_kind a with AW => true | AR => false end) (st_log (fst r)) = true.
Proof. exact parse_blobs_mem_witness. Qed.

Example C17_witness_views :
  Forall (view_ok [d7_arena]) d7_views /\ parse_blobs (map (mread_bytes [d7_arena]) d7_views) = Ok [d7_blob].
Proof. exact parse_blobs_refines_witness. Qed.

Example C17_witness_concurrent :
  let ths := repeat (pb_thread grow_double d7_views, pb_start) 3 in
  let final := run_sched 1 [0;1;2;2;1;0;0;0;1;2;2;1] ([d7_arena], ths) in
  fst final = [d7_arena] /\
  map (fun th => (length (fst th), tc_loc (snd th))) (snd final) = repeat (0, PBDone (Ok [d7_blob])) 3 /\
  map (fun th => length (tc_priv (snd th))) (snd final) = [3; 3; 3].
Proof. exact parse_blobs_concurrent_witness. Qed.

Example C17_witness_legacy_not_disciplined :
  ~ disciplined (fun _ : unit => True) 1
      (fun s => (fst (parse_blobs_mem_legacy grow_double d7_views (fst s)), tt)).
Proof. exact legacy_step_not_disciplined. Qed.
