package fn

import "fmt"

// Every function of this file is outside the fragment: go2coq must report it as unsupported, with
// a message containing the text after "refuse:".  One offending construct per function.

var counter = 3

// refuse: package-level variable counter
func RPkgVarRead(x int) int { return x + counter }

// refuse: package-level variable counter
func RPkgVarWrite(x int) int {
	counter = x
	return x
}

// refuse: method call
func RMethodCall(x int) int { return int(Celsius(x).Double()) }

// refuse: method call on the receiver
func (c *Acc) RSelfCall(x int) int { return c.Add(x) + 1 }

// refuse: could have an effect
func RErrorfCall(x int) error { return fmt.Errorf("%d", QuoI(1, x)) }

// refuse: comparison of two error values
func RErrEq(x int) bool {
	_, e1 := SafeDiv(x, 1)
	_, e2 := SafeDiv(1, x)
	return e1 == e2
}

// refuse: comparison of two error values
func RErrNilShadowed(x int) bool {
	_, e1 := SafeDiv(x, 1)
	nil := e1
	return e1 != nil
}

// refuse: func(y int) int literal
func RClosure(x int) int {
	f := func(y int) int { return y + x }
	return f(1)
}

// refuse: DeferStmt
func RDefer(x int) (r int) {
	defer NoResult(x)
	r = x
	return
}

// refuse: variadic
func RVariadic(xs ...int) int { return len(xs) }

// refuse: float64
func RFloat(x int) int { return int(float64(x) * 1.5) }

// refuse: outside the fragment
func RStringIndex(s string, i int) uint8 { return s[i] }

const hello = "hello"

// refuse: expression hello[
func RStringIndexConst(i int) uint8 { return hello[i%5] + 0 }

// refuse: declaration
func RLocalConst(x int) int {
	const k = 3
	return x + k
}

// refuse: break statement
func RBreak(n int) int {
	i := 0
	for i < 10 {
		if i == n {
			break
		}
		i++
	}
	return i
}

// refuse: continue statement
func RContinue(n int) int {
	s := 0
	for i := 0; i < 10; i++ {
		if i == n {
			continue
		}
		s += i
	}
	return s
}

// refuse: fallthrough statement
func RFallthrough(n int) int {
	switch {
	case n > 0:
		n++
		fallthrough
	default:
		n *= 2
	}
	return n
}

// refuse: switch with a tag
func RTagSwitch(n int) int {
	switch n {
	case 1:
		return 2
	}
	return n
}

// refuse: parallel assignment
func RSwap(a, b int) int {
	a, b = b, a
	return a - b
}

// refuse: RangeStmt
func RRange(n int) int {
	s := 0
	for i := range 3 {
		s += i * n
	}
	return s
}

// refuse: unary operator ^
func RComplement(x int) int { return ^x }

// refuse: binary operator &^
func RAndNot(x, y int) int { return x &^ y }

// refuse: int32
func RInt32(x int32) int32 { return x + 1 }

// refuse: ExprStmt
func RCallStmt(x int) int {
	NoResult(x)
	return x
}

// refuse: GoStmt
func RGo(x int) int {
	go NoResult(x)
	return x
}

// refuse: BranchStmt
func RGoto(x int) int {
	if x > 0 {
		goto done
	}
	x = -x
done:
	return x
}

// refuse: pointer receiver of a non-struct type
func (c *Celsius) RPtrBasicRecv() Celsius { return *c + 1 }

type Bytes []byte

// refuse: receiver type
func (b Bytes) RSliceRecv(x int) int { return x }

// refuse: not one of the modelled integer fields
func (m *Mixed) RTouchString(x int) int {
	if m.Name == "" {
		return x
	}
	return m.N
}

// refuse: expression m.Buf[
func (m Mixed) RTouchSlice(i int) byte { return m.Buf[i] }

// refuse: more than one type parameter
func RTwoTypeParams[T, U Integer](a T, b U) int { return int(a) + int(b) }

// refuse: outside the fragment
func RPointer(p *int) int { return *p }

// an error field is not among the modelled (integer) fields of a receiver: reading it must be refused,
// otherwise it would always read as nil
type WithErr struct {
	N   int
	Err error
}

// refuse: Err
func (w *WithErr) RTouchErrField() int {
	if w.Err != nil {
		return -1
	}
	return w.N
}

// refuse: Err
func (w *WithErr) RSetErrField(x int) int {
	w.Err = nil
	return x
}

// a field promoted from an embedded struct is not a modelled field either
type Emb struct {
	Acc
	Z int
}

// refuse: N
func (e *Emb) RPromotedField() int { return e.N + e.Z }
