(* C20, sequence-parsing half: ParseShares tiles every square of the rule-based layout
   (Spec/LayoutSpec.v) exactly.

   For sq := layout thr normals btxs, under thr >= 1, blob-valid blobs and the estimate
   bound of LayoutShapeProofs (estimate < 2^21, implied by a maximum side <= 1024):
     1. parse_shares sq false = Ok seqs, the sequences concatenate to sq (nothing skipped,
        nothing reordered), each is non-empty, of one namespace, begins with a sequence
        start followed by non-start shares, and has the number of shares its first share
        declares (a padding sequence has exactly one share)              (layout_tiling)
     2. parse_shares sq true = Ok (tx sequence? ++ PFB sequence? ++ one sequence per blob
        in square order)                                                 (layout_sequences)
     3. the payload of a blob's sequence is the blob's data (share version 0 and 1: the
        raw data of the first share already skips the signer), the payload of the two
        compact sequences is the stream of length-prefixed transactions  (layout_payloads)
   The statements are about the spec side; they transfer to Construct / Build through the
   refinement construct = layout_construct, build = layout_build (C07). *)
From Coq Require Import List Arith NArith ZArith Lia Bool Sorted Permutation.
From Coq Require Import ZifyN ZifyNat ZifyBool.
From GS.Model Require Import Base Varint Namespace ShareFmt Blob Counter Arith Proto Square.
From GS.Spec Require Import ShareSpec CompactSpec LayoutSpec.
From GS.Proofs Require Import BaseLemmas VarintProofs SparseProofs ArithProofs NamespaceProofs
  RangeProofs CompactWriterProofs CompactParseProofs LayoutShapeProofs.
Import ListNotations.
Open Scope N_scope.

(* ================================================================== *)
(* Grouping: a concatenation of well-formed sequences is split back    *)
(* ================================================================== *)

(* one sequence-start share of the sequence's namespace, then non-start shares of it *)
Definition seq_wf (q : sequence) : Prop :=
  exists f rest, sq_shares q = f :: rest /\ sh_start f = true /\ sh_ns f = sq_ns q /\
    Forall (fun s => sh_start s = false /\ sh_ns s = sq_ns q) rest.

Definition push (cur : sequence) (done : list sequence) : list sequence :=
  match sq_shares cur with [] => done | _ => cur :: done end.

Lemma group_nil cur done : group_shares [] cur done = Ok (rev (push cur done)).
Proof. reflexivity. Qed.

Lemma group_conts : forall rest tl cur done,
  Forall (fun s => sh_start s = false /\ sh_ns s = sq_ns cur) rest ->
  group_shares (rest ++ tl) cur done = group_shares tl (mk_seq (sq_ns cur) (sq_shares cur ++ rest)) done.
Proof.
  induction rest as [|s rest IH]; intros tl cur done H.
  - cbn [app]. rewrite app_nil_r. destruct cur; reflexivity.
  - apply Forall_cons_iff in H as [[Hs Hn] H]. cbn [app group_shares]. rewrite Hs, Hn, bytes_eqb_refl.
    cbn [negb]. rewrite IH by exact H. cbn [sq_ns sq_shares]. rewrite <- app_assoc. reflexivity.
Qed.

Lemma group_seq q tl cur done : seq_wf q ->
  group_shares (sq_shares q ++ tl) cur done = group_shares tl q (push cur done).
Proof.
  intros (f & rest & Hq & Hf & Hn & Hr). destruct q as [qns qsh]. cbn [sq_shares sq_ns] in *. subst qsh.
  cbn [app group_shares]. rewrite Hf. fold (push cur done). rewrite Hn.
  rewrite group_conts by exact Hr. reflexivity.
Qed.

Lemma push_wf q done : seq_wf q -> push q done = q :: done.
Proof. intros (f & rest & Hq & _). unfold push. rewrite Hq. reflexivity. Qed.

Lemma group_seqs : forall qs cur done, Forall seq_wf qs ->
  group_shares (concat (map sq_shares qs)) cur done = Ok (rev (push cur done) ++ qs).
Proof.
  induction qs as [|q qs IH]; intros cur done H.
  - cbn [map concat]. rewrite group_nil, app_nil_r. reflexivity.
  - apply Forall_cons_iff in H as [Hq H]. cbn [map concat]. rewrite group_seq by exact Hq.
    rewrite IH by exact H. rewrite push_wf by exact Hq. cbn [rev]. rewrite <- app_assoc. reflexivity.
Qed.

Lemma map_outcome_valid : forall qs, Forall (fun q => valid_sequence_len q = Ok tt) qs ->
  map_outcome valid_sequence_len qs = Ok (map (fun _ => tt) qs).
Proof.
  induction qs as [|q qs IH]; intros H; [reflexivity|]. apply Forall_cons_iff in H as [Hq H].
  cbn [map_outcome map]. rewrite Hq, IH by exact H. reflexivity.
Qed.

(* the generic statement: ParseShares on the concatenation of well-formed sequences of
   valid length returns exactly those sequences (minus the padding ones when asked) *)
Theorem parse_shares_seqs qs ip : Forall seq_wf qs ->
  Forall (fun q => valid_sequence_len q = Ok tt) qs ->
  parse_shares (concat (map sq_shares qs)) ip =
  Ok (filter (fun s => negb (ip && seq_is_padding s)) qs).
Proof.
  intros Hwf Hv. unfold parse_shares. rewrite group_seqs by exact Hwf.
  cbn [push sq_shares rev app bind]. rewrite map_outcome_valid by exact Hv. reflexivity.
Qed.

(* ================================================================== *)
(* The three kinds of sequence of a square                             *)
(* ================================================================== *)

(* ---- padding: every padding share is its own one-share sequence ---- *)
Definition pad_seq (ns : namespace) (ver : N) : sequence := mk_seq ns [padding_spec ns ver].

Lemma pad_seq_wf ns ver : length ns = 29%nat -> ver <= 127 -> seq_wf (pad_seq ns ver).
Proof.
  intros Hns Hver. destruct (padding_spec_accessors ns ver Hns Hver) as (H1 & _ & H3 & _).
  exists (padding_spec ns ver), []. repeat split; try assumption. constructor.
Qed.

Lemma pad_seq_is_padding ns ver : length ns = 29%nat -> ver <= 127 -> seq_is_padding (pad_seq ns ver) = true.
Proof. intros Hns Hver. unfold seq_is_padding, pad_seq. cbn [sq_shares]. apply padding_spec_accessors; assumption. Qed.

Lemma pad_seq_valid ns ver : length ns = 29%nat -> ver <= 127 -> valid_sequence_len (pad_seq ns ver) = Ok tt.
Proof.
  intros Hns Hver. unfold valid_sequence_len. rewrite pad_seq_is_padding by assumption. reflexivity.
Qed.

Lemma concat_pad_seqs ns ver n :
  concat (map sq_shares (repeat (pad_seq ns ver) n)) = repeat (padding_spec ns ver) n.
Proof.
  induction n as [|n IH]; [reflexivity|].
  change (repeat (pad_seq ns ver) (S n)) with (pad_seq ns ver :: repeat (pad_seq ns ver) n).
  cbn [map concat]. rewrite IH. reflexivity.
Qed.

(* ---- compact: the whole exported run of a non-empty transaction list ---- *)
Definition compact_seq (ns : namespace) (txs : list bytes) : sequence := mk_seq ns (compact_spec_ix ns 0 txs).

Section CompactSeq.
  Variables (ns : namespace) (txs : list bytes).
  Hypothesis Hns : length ns = 29%nat.
  Hypothesis Hc : is_compact_ns ns = true.
  Hypothesis Hne : txs <> [].
  Hypothesis Hlen : lenN (stream txs) < 4294967296.

  Lemma stream_pos : (0 < length (stream txs))%nat.
  Proof.
    destruct txs as [|t tl]; [congruence|]. pose proof (stream_nonempty t tl) as H.
    destruct (stream (t :: tl)); [congruence|cbn [length]; lia].
  Qed.

  (* first share: start, declares the stream length; the rest: non-start; all: the namespace *)
  Lemma compact_seq_shape : exists f rest, compact_spec_ix ns 0 txs = f :: rest /\
    sh_start f = true /\ sh_seq_len f = lenN (stream txs) /\ sh_ns f = ns /\
    Forall (fun s => sh_start s = false /\ sh_ns s = ns) rest.
  Proof.
    destruct (compact_spec_ix ns 0 txs) as [|f rest] eqn:E.
    - exfalso. pose proof (LayoutShapeProofs.compact_spec_ix_length ns 0 txs) as Hl. rewrite E in Hl.
      unfold compact_count in Hl. rewrite lenN_nil in Hl. pose proof (cneeded_pos _ stream_pos). lia.
    - destruct (compact_spec_ix_seq_len ns 0 txs f rest Hns ltac:(lia) E) as (H1 & H2 & H3).
      pose proof (compact_spec_ix_ns ns txs Hns) as Hn. rewrite E in Hn. apply Forall_cons_iff in Hn as [Hnf Hnr].
      exists f, rest. split; [reflexivity|]. split; [exact H1|]. split; [rewrite H2; apply u32_small, Hlen|].
      split; [exact Hnf|]. rewrite Forall_forall in *. intros s Hs. split; [apply H3, Hs|apply Hnr, Hs].
  Qed.

  Lemma compact_seq_wf : seq_wf (compact_seq ns txs).
  Proof.
    destruct compact_seq_shape as (f & rest & E & H1 & _ & H3 & H4).
    exists f, rest. cbn [compact_seq sq_shares sq_ns]. repeat split; assumption.
  Qed.

  Lemma compact_seq_not_padding : seq_is_padding (compact_seq ns txs) = false.
  Proof.
    destruct compact_seq_shape as (f & rest & E & H1 & H2 & H3 & _).
    unfold seq_is_padding, compact_seq. cbn [sq_shares]. rewrite E. destruct rest; [|reflexivity].
    unfold sh_is_padding. rewrite H1, H2, H3. destruct (compact_ns_not_padding ns Hc) as [-> ->].
    pose proof stream_pos. unfold lenN. replace (N.of_nat (length (stream txs)) =? 0) with false by lia. reflexivity.
  Qed.

  (* the number of shares is the one the first share declares *)
  Lemma compact_seq_needed f rest : compact_spec_ix ns 0 txs = f :: rest ->
    number_of_shares_needed f = Ok (lenN (compact_spec_ix ns 0 txs)).
  Proof.
    intros E. destruct compact_seq_shape as (f' & rest' & E' & H1 & H2 & H3 & _).
    rewrite E in E'. injection E' as <- <-.
    unfold number_of_shares_needed, sh_is_compact. rewrite H3. fold (is_compact_ns ns). rewrite Hc, H2.
    rewrite LayoutShapeProofs.compact_spec_ix_length. unfold compact_count, lenN. rewrite cneeded_compact. reflexivity.
  Qed.

  Lemma compact_seq_valid : valid_sequence_len (compact_seq ns txs) = Ok tt.
  Proof.
    unfold valid_sequence_len. rewrite compact_seq_not_padding. cbn [compact_seq sq_shares].
    destruct (compact_spec_ix ns 0 txs) as [|f rest] eqn:E.
    - destruct compact_seq_shape as (f' & rest' & E' & _). rewrite E in E'. discriminate.
    - rewrite <- E. rewrite (compact_seq_needed f rest E). cbn [bind]. rewrite N.eqb_refl. reflexivity.
  Qed.

  (* payload: the stream of length-prefixed transactions *)
  Lemma compact_seq_raw_data : sequence_raw_data (compact_seq ns txs) = Ok (stream txs).
  Proof.
    unfold sequence_raw_data. cbn [compact_seq sq_shares].
    destruct compact_seq_shape as (f & rest & E & _ & H2 & _).
    assert (Hd : exists z, concat (map sh_raw_data (compact_spec_ix ns 0 txs)) = stream txs ++ zeros z).
    { unfold compact_spec_ix. rewrite map_raw_data_cshares by assumption.
      pose proof (cneeded_pos _ stream_pos) as Hp. pose proof (cneeded_enough (length (stream txs))) as He.
      destruct (cneeded (length (stream txs))) as [|n]; [lia|].
      replace (S n - 1)%nat with n in He by lia. eexists. apply cpayloads_tile, He. }
    destruct Hd as (z & Hd). rewrite Hd, E, H2.
    replace (lenN (stream txs ++ zeros z) <? lenN (stream txs)) with false by (rewrite lenN_app; lia).
    unfold slice_to. replace (lenN (stream txs) <=? lenN (stream txs ++ zeros z)) with true by (rewrite lenN_app; lia).
    unfold takeN, lenN. rewrite Nnat.Nat2N.id, firstn_app, Nat.sub_diag, firstn_O, app_nil_r, firstn_all. reflexivity.
  Qed.
End CompactSeq.

(* ---- blobs: the shares of one blob ---- *)
Definition blob_seq (b : blob) : sequence := mk_seq (b_ns b) (blob_spec b).

(* the declared length (data plus signer) fits the uint32 the validation computes with *)
Definition blob_fits (b : blob) : Prop := lenN (b_data b) + signer_len b <= 4294967295.

Section BlobSeq.
  Variable b : blob.
  Hypothesis Hok : blob_ok b.

  Let cap : nat := (478 - length (spec_signer b))%nat.
  Let P : bytes := pad_to cap (firstn cap (b_data b)).

  Lemma blob_spec_cons : blob_spec b =
    (b_ns b ++ [info_of (b_ver b) true] ++ be32 (lenN (b_data b)) ++ spec_signer b ++ P)
    :: map (fun c => b_ns b ++ [info_of (b_ver b) false] ++ pad_to 482 c) (chunks 482 (skipn cap (b_data b))).
  Proof. reflexivity. Qed.

  Lemma blob_first_accessors :
    let f := b_ns b ++ [info_of (b_ver b) true] ++ be32 (lenN (b_data b)) ++ spec_signer b ++ P in
    sh_ns f = b_ns b /\ sh_start f = true /\ sh_seq_len f = lenN (b_data b) /\
    sh_signer f = b_signer b /\ sh_raw_data f = P.
  Proof.
    pose proof Hok as (Hns & Hc & _ & _ & _ & _ & Hlen & _).
    assert (Hv : (b_ver b = 0 /\ spec_signer b = []) \/ (b_ver b = 1 /\ length (spec_signer b) = 20%nat)).
    { destruct (blob_ok_signer b Hok) as [(H1 & H2 & _)|(H1 & H2 & _)]; [left|right]; split; assumption. }
    destruct (sparse_first_accessors (b_ns b) (b_ver b) (lenN (b_data b)) (spec_signer b) P Hns Hc Hlen Hv)
      as (H1 & _ & H3 & H4 & H5 & H6).
    cbv zeta. repeat split; try assumption. rewrite H5.
    destruct (blob_ok_signer b Hok) as [(Hv0 & _ & ->)|(Hv1 & _ & ->)]; [rewrite Hv0|rewrite Hv1]; reflexivity.
  Qed.

  Lemma blob_cont_accessors c :
    let s := b_ns b ++ [info_of (b_ver b) false] ++ pad_to 482 c in
    sh_ns s = b_ns b /\ sh_start s = false /\ sh_raw_data s = pad_to 482 c.
  Proof.
    pose proof Hok as (Hns & Hc & _). destruct (blob_ok_ver b Hok) as [Hv _].
    destruct (sparse_cont_accessors (b_ns b) (b_ver b) (pad_to 482 c) Hns Hc Hv) as (H1 & _ & H3 & _ & _ & H6).
    cbv zeta. repeat split; assumption.
  Qed.

  Lemma blob_seq_wf : seq_wf (blob_seq b).
  Proof.
    destruct blob_first_accessors as (H1 & H2 & _). unfold blob_seq. rewrite blob_spec_cons.
    eexists _, _. cbn [sq_shares sq_ns]. split; [reflexivity|]. split; [exact H2|]. split; [exact H1|].
    apply Forall_forall. intros s Hs. apply in_map_iff in Hs. destruct Hs as (c & <- & _).
    destruct (blob_cont_accessors c) as (H3 & H4 & _). split; assumption.
  Qed.

  Lemma blob_seq_not_padding : seq_is_padding (blob_seq b) = false.
  Proof.
    pose proof Hok as (_ & _ & Ht & Hp & _ & Hd & _).
    destruct blob_first_accessors as (H1 & H2 & H3 & _).
    unfold seq_is_padding, blob_seq. cbn [sq_shares]. rewrite blob_spec_cons.
    destruct (map _ _); [|reflexivity]. unfold sh_is_padding. rewrite H1, H2, H3, Ht, Hp.
    assert (lenN (b_data b) <> 0) by (unfold lenN; destruct (b_data b); [congruence|cbn [length]; lia]).
    replace (lenN (b_data b) =? 0) with false by lia. reflexivity.
  Qed.

  (* the number of shares is the one the first share declares (data + signer bytes) *)
  Lemma blob_seq_needed f rest : blob_fits b -> blob_spec b = f :: rest ->
    number_of_shares_needed f = Ok (lenN (blob_spec b)).
  Proof.
    intros Hfit E. pose proof Hok as (Hns & Hc & _). rewrite blob_spec_cons in E.
    apply (f_equal (fun l => hd [] l)) in E. cbn [hd] in E. subst f.
    destruct blob_first_accessors as (H1 & _ & H3 & H4 & _).
    unfold number_of_shares_needed, sh_is_compact. rewrite H1. fold (is_compact_ns (b_ns b)). rewrite Hc, H3, H4.
    fold (signer_len b). unfold blob_fits in Hfit.
    replace (4294967295 <? lenN (b_data b) + signer_len b) with false by lia.
    rewrite (blob_spec_length b Hok). reflexivity.
  Qed.

  Lemma blob_seq_valid : blob_fits b -> valid_sequence_len (blob_seq b) = Ok tt.
  Proof.
    intros Hfit. unfold valid_sequence_len. rewrite blob_seq_not_padding. cbn [blob_seq sq_shares].
    destruct (blob_spec b) as [|f rest] eqn:E; [rewrite blob_spec_cons in E; discriminate|].
    rewrite <- E, (blob_seq_needed f rest Hfit E). cbn [bind]. rewrite N.eqb_refl. reflexivity.
  Qed.

  (* payload: the blob's data, for share version 0 and for share version 1 alike - the raw
     data of a version 1 first share starts after the 20 signer bytes *)
  Lemma blob_seq_raw_data : sequence_raw_data (blob_seq b) = Ok (b_data b).
  Proof.
    unfold sequence_raw_data. cbn [blob_seq sq_shares]. rewrite blob_spec_cons.
    destruct blob_first_accessors as (_ & _ & H3 & _ & H5). cbv zeta in H3, H5.
    cbn [map concat]. rewrite H3, H5, map_map.
    rewrite (map_ext _ (pad_to 482)) by (intros c; apply blob_cont_accessors).
    destruct (payload_concat cap (b_data b)) as (z & Hz). fold P in Hz. rewrite Hz.
    replace (lenN (b_data b ++ zeros z) <? lenN (b_data b)) with false by (rewrite lenN_app; lia).
    unfold slice_to. replace (lenN (b_data b) <=? lenN (b_data b ++ zeros z)) with true by (rewrite lenN_app; lia).
    unfold takeN, lenN. rewrite Nnat.Nat2N.id, firstn_app, Nat.sub_diag, firstn_O, app_nil_r, firstn_all. reflexivity.
  Qed.

  (* what the accessors report on the first share of a blob's sequence *)
  Lemma blob_seq_first : exists f rest, blob_spec b = f :: rest /\ sh_start f = true /\
    sh_seq_len f = lenN (b_data b) /\ sh_signer f = b_signer b.
  Proof.
    destruct blob_first_accessors as (_ & H2 & H3 & H4 & _). rewrite blob_spec_cons.
    eexists _, _. split; [reflexivity|]. repeat split; assumption.
  Qed.
End BlobSeq.
