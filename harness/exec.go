package main

// Execution of one request against the real go-square code, printing the
// result in the canonical form that runner/driver.ml prints for the model.

import (
	"crypto/sha256"
	"encoding/binary"
	"fmt"
	"runtime/debug"
	"strconv"
	"strings"

	square "github.com/celestiaorg/go-square/v2"
	"github.com/celestiaorg/go-square/v2/inclusion"
	v1 "github.com/celestiaorg/go-square/v2/proto/blob/v1"
	"github.com/celestiaorg/go-square/v2/share"
	"github.com/celestiaorg/go-square/v2/tx"
)

// lastPanic records the stack of the most recent recovered panic (C16 attribution).
var lastPanic string

// safeExec runs one request; a panic of the implementation is the outcome "fault".
func safeExec(op string, a []string) (res string) {
	defer func() {
		if r := recover(); r != nil {
			if s, ok := r.(string); ok && strings.HasPrefix(s, "harness") {
				panic(r)
			}
			lastPanic = fmt.Sprintf("%v\n%s", r, debug.Stack())
			res = "fault"
		}
	}()
	return execOp(op, a)
}

const mockPFBExtraBytes = 329

func mockPFB(prefix []byte, sizes []uint32) []byte {
	out := make([]byte, mockPFBExtraBytes+4*len(sizes))
	copy(out, prefix)
	for i, s := range sizes {
		binary.BigEndian.PutUint32(out[mockPFBExtraBytes+4*i:], s)
	}
	return out
}

func decodeMockPFB(pfb []byte) ([]uint32, error) {
	if len(pfb) < mockPFBExtraBytes+4 {
		return nil, fmt.Errorf("must have a length of at least %d bytes, got %d", mockPFBExtraBytes+4, len(pfb))
	}
	pfb = pfb[mockPFBExtraBytes:]
	blobSizes := make([]uint32, len(pfb)/4)
	for i := 0; i < len(blobSizes); i++ {
		blobSizes[i] = binary.BigEndian.Uint32(pfb[i*4 : (i+1)*4])
	}
	return blobSizes, nil
}

func itoa(i int) string { return strconv.Itoa(i) }

func showSquare(sq square.Square) string {
	return fmt.Sprintf("%d:%s", square.Size(len(sq)), showBigList(rawShares(sq)))
}

func consts() string {
	return strings.Join([]string{
		"share_size=" + itoa(share.ShareSize),
		"ns_size=" + itoa(share.NamespaceSize),
		"first_compact=" + itoa(share.FirstCompactShareContentSize),
		"cont_compact=" + itoa(share.ContinuationCompactShareContentSize),
		"first_sparse=" + itoa(share.FirstSparseShareContentSize),
		"cont_sparse=" + itoa(share.ContinuationSparseShareContentSize),
		"signer_size=" + itoa(share.SignerSize),
		"max_share_version=" + itoa(share.MaxShareVersion),
		"tx_ns=" + hx(share.TxNamespace.Bytes()),
		"isr_ns=" + hx(share.IntermediateStateRootsNamespace.Bytes()),
		"pfb_ns=" + hx(share.PayForBlobNamespace.Bytes()),
		"prp_ns=" + hx(share.PrimaryReservedPaddingNamespace.Bytes()),
		"maxprim_ns=" + hx(share.MaxPrimaryReservedNamespace.Bytes()),
		"minsec_ns=" + hx(share.MinSecondaryReservedNamespace.Bytes()),
		"tail_ns=" + hx(share.TailPaddingNamespace.Bytes()),
		"parity_ns=" + hx(share.ParitySharesNamespace.Bytes()),
		"blob_type_id=" + hx([]byte(tx.ProtoBlobTxTypeID)),
		"indx_type_id=" + hx([]byte(tx.ProtoIndexWrapperTypeID)),
		"worst_index=" + showList(func(u uint32) string { return strconv.FormatUint(uint64(u), 10) }, square.VerifWorstCaseShareIndexes(2)),
	}, ";")
}

func u32s(l []uint32) string {
	return showList(func(u uint32) string { return strconv.FormatUint(uint64(u), 10) }, l)
}

func counterOps(ops []string) string {
	// the same history on a counter from the constructor, on the zero value and on new(T): the type is
	// exported with no exported fields, and its zero value is what the constructor returns on the pinned tree
	var zero share.CompactShareCounter
	res := counterOpsOn(share.NewCompactShareCounter(), ops)
	if z := counterOpsOn(&zero, ops); z != res {
		return res + " zero-value-counter:" + z
	}
	if z := counterOpsOn(new(share.CompactShareCounter), ops); z != res {
		return res + " new-counter:" + z
	}
	return res
}

func counterOpsOn(c *share.CompactShareCounter, ops []string) string {
	outs := make([]string, len(ops))
	for i, op := range ops {
		if op == "r" {
			c.Revert()
			outs[i] = fmt.Sprintf("-/%d/%d", c.Size(), c.Remainder())
		} else {
			d := c.Add(atoi(op[1:]))
			outs[i] = fmt.Sprintf("%d/%d/%d", d, c.Size(), c.Remainder())
		}
	}
	return strings.Join(outs, ",")
}

func shinfo(raw []byte) string {
	sh := sharesOf([][]byte{raw})[0]
	ns := sh.Namespace()
	var ur string
	if d, err := sh.RawDataUsingReserved(); err != nil {
		ur = "err"
	} else {
		ur = "ok:" + hx(d)
	}
	return strings.Join([]string{
		hx(ns.Bytes()), itoa(int(sh.Version())), showBool(sh.IsSequenceStart()), showBool(sh.IsCompactShare()),
		strconv.FormatUint(uint64(sh.SequenceLen()), 10), showSigner(share.GetSigner(sh)), showBool(sh.IsPadding()),
		showBool(sh.CheckVersionSupported() == nil), hx(sh.RawData()), ur,
	}, " ")
}

func sparseItems(items []string) string {
	var acc []share.Share
	var sp *share.SparseShareSplitter
	flush := func() {
		if sp != nil {
			acc = append(acc, sp.Export()...)
			sp = nil
		}
	}
	for _, it := range items {
		arg := it[2:]
		switch it[0] {
		case 'b':
			if sp == nil {
				sp = share.NewSparseShareSplitter()
			}
			if err := sp.Write(blobOfString(arg)); err != nil {
				return "err"
			}
		case 'n':
			if sp == nil {
				if len(acc) != 0 {
					panic("harness: namespace padding directly after reserved/tail padding is not generated")
				}
				sp = share.NewSparseShareSplitter()
			}
			if err := sp.WriteNamespacePaddingShares(atoi(arg)); err != nil {
				return "err"
			}
		case 'r':
			flush()
			acc = append(acc, share.ReservedPaddingShares(atoi(arg))...)
		case 't':
			flush()
			acc = append(acc, share.TailPaddingShares(atoi(arg))...)
		default:
			panic("harness: bad sparse item")
		}
	}
	flush()
	return "ok:" + showList(hx, rawShares(acc))
}

func copyShares(shs []share.Share) [][]byte {
	out := make([][]byte, len(shs))
	for i, s := range shs {
		out[i] = append([]byte(nil), s.ToBytes()...)
	}
	return out
}

func compactOps(ns []byte, ver int, ops []string) string {
	css := share.NewCompactShareSplitter(nsOf(ns), uint8(ver))
	var written [][]byte
	seen := map[string]bool{}
	outs := make([]string, 0, len(ops)+1)
	for _, op := range ops {
		switch op[0] {
		case 'w':
			t := unhx(op[1:])
			if err := css.WriteTx(t); err != nil {
				outs = append(outs, "w:err")
			} else {
				if !seen[string(t)] {
					seen[string(t)] = true
					written = append(written, t)
				}
				outs = append(outs, "w:ok")
			}
		case 'e':
			shs, err := css.Export()
			if err != nil {
				outs = append(outs, "e:err")
			} else {
				outs = append(outs, "e:ok:"+showList(hx, copyShares(shs)))
			}
		case 'c':
			outs = append(outs, "c:"+itoa(css.Count()))
		default:
			panic("harness: bad compact op")
		}
	}
	ranges := css.ShareRanges(3)
	rs := make([]string, len(written))
	for i, t := range written {
		if r, ok := ranges[sha256.Sum256(t)]; ok {
			rs[i] = fmt.Sprintf("%d-%d", r.Start, r.End)
		} else {
			rs[i] = "none"
		}
	}
	return strings.Join(outs, ";") + ";R:" + strings.Join(rs, ",")
}

func showSequence(s share.Sequence) string {
	pad := len(s.Shares) == 1 && s.Shares[0].IsPadding()
	var rd string
	if d, err := s.RawData(); err != nil {
		rd = "err"
	} else if fullOutput {
		rd = "ok:" + hx(d)
	} else {
		rd = "ok:" + digestList([][]byte{d})
	}
	return fmt.Sprintf("%s/%d/%s/%s", hx(s.Namespace.Bytes()), len(s.Shares), showBool(pad), rd)
}

func builderOps(max, thr int, ops []string) string {
	b, err := square.NewBuilder(max, thr)
	if err != nil {
		return "err"
	}
	cur := func() string { return itoa(b.CurrentSize()) }
	outs := make([]string, len(ops))
	for i, op := range ops {
		arg := op[1:]
		switch op[0] {
		case 't':
			ok := b.AppendTx(unhx(arg))
			outs[i] = fmt.Sprintf("t:%s:%s", showBool(ok), cur())
		case 'b':
			bt, isBlob, err := tx.UnmarshalBlobTx(unhx(arg))
			if !isBlob || err != nil {
				outs[i] = "b:undecodable"
			} else {
				ok := b.AppendBlobTx(bt)
				outs[i] = fmt.Sprintf("b:%s:%s", showBool(ok), cur())
			}
		case 'z':
			// a blob transaction without blobs, passed directly to the builder (the decoders refuse one)
			ok := b.AppendBlobTx(&tx.BlobTx{Tx: unhx(arg)})
			outs[i] = fmt.Sprintf("z:%s:%s", showBool(ok), cur())
		case 'x':
			sq, err := b.Export()
			if err != nil {
				outs[i] = "x:err"
			} else {
				outs[i] = "x:ok:" + showSquare(sq)
			}
		case 'r':
			r, err := b.FindTxShareRange(atoi(arg))
			if err != nil {
				outs[i] = "r:err"
			} else {
				outs[i] = fmt.Sprintf("r:ok:%d-%d", r.Start, r.End)
			}
		case 's':
			pj := strings.Split(arg, "/")
			p, j := atoi(pj[0]), atoi(pj[1])
			idx, err := b.FindBlobStartingIndex(p, j)
			if err != nil {
				outs[i] = "s:err"
			} else {
				l, err := b.BlobShareLength(p, j)
				ls := "err"
				if err == nil {
					ls = "ok:" + itoa(l)
				}
				outs[i] = fmt.Sprintf("s:ok:%d:%s", idx, ls)
			}
		case 'l':
			pj := strings.Split(arg, "/")
			l, err := b.BlobShareLength(atoi(pj[0]), atoi(pj[1]))
			if err != nil {
				outs[i] = "l:err"
			} else {
				outs[i] = "l:ok:" + itoa(l)
			}
		case 'w':
			iw, err := b.GetWrappedPFB(atoi(arg))
			if err != nil {
				outs[i] = "w:err"
			} else {
				outs[i] = "w:ok:" + hx(iw.Tx) + ":" + u32s(iw.ShareIndexes)
			}
		case 'q':
			outs[i] = fmt.Sprintf("q:%s:%d:%d:%d:%d:%d", cur(), len(b.Txs), len(b.Pfbs), len(b.Blobs), b.TxCounter.Size(), b.PfbCounter.Size())
		default:
			panic("harness: bad builder op")
		}
	}
	return strings.Join(outs, ";")
}

func okList(l [][]byte, err error) string {
	if err != nil {
		return "err"
	}
	return "ok:" + showList(hx, l)
}

func okBig(l [][]byte, err error) string {
	if err != nil {
		return "err"
	}
	return "ok:" + showBigList(l)
}

func execOp(op string, a []string) string {
	n := func(i int) int { return atoi(a[i]) }
	h := func(i int) []byte { return unhx(a[i]) }
	switch op {
	case "consts":
		return consts()
	case "rup":
		return itoa(inclusion.RoundUpPowerOfTwo(n(0)))
	case "rdown":
		v, err := inclusion.RoundDownPowerOfTwo(n(0))
		if err != nil {
			return "err"
		}
		return "ok:" + itoa(v)
	case "ispow2":
		return showBool(square.IsPowerOfTwo(n(0)))
	case "minsq":
		return itoa(inclusion.BlobMinSquareSize(n(0)))
	case "sqsize":
		return itoa(square.Size(n(0)))
	case "stw":
		return itoa(inclusion.SubTreeWidth(n(0), n(1)))
	case "rumo":
		return itoa(inclusion.RoundUpByMultipleOf(n(0), n(1)))
	case "nsi":
		return itoa(inclusion.NextShareIndex(n(0), n(1), n(2)))
	case "mmr":
		sizes, err := inclusion.MerkleMountainRangeSizes(atou(a[0]), atou(a[1]))
		if err != nil {
			return "err"
		}
		return showList(func(u uint64) string { return strconv.FormatUint(u, 10) }, sizes)
	case "bsu":
		parts := splitList(a[2])
		lens := make([]int, len(parts))
		for i, p := range parts {
			lens[i] = atoi(p)
		}
		used, idx := inclusion.BlobSharesUsedNonInteractiveDefaults(n(0), n(1), lens...)
		return itoa(used) + ":" + u32s(idx)
	case "cneed":
		return itoa(share.CompactSharesNeeded(uint32(atou(a[0]))))
	case "sneed":
		return itoa(share.SparseSharesNeeded(uint32(atou(a[0]))))
	case "cavail":
		return itoa(share.AvailableBytesFromCompactShares(n(0)))
	case "savail":
		return itoa(share.AvailableBytesFromSparseShares(n(0)))
	case "delimlen":
		return itoa(share.VerifDelimLen(atou(a[0])))
	case "counter":
		return counterOps(splitList(a[0]))
	case "nscmp":
		x, y := nsOf(h(0)), nsOf(h(1))
		return strings.Join([]string{itoa(x.Compare(y)), showBool(x.Equals(y)), showBool(x.IsLessThan(y)),
			showBool(x.IsLessOrEqualThan(y)), showBool(x.IsGreaterThan(y)), showBool(x.IsGreaterOrEqualThan(y))}, " ")
	case "nsinfo":
		x := nsOf(h(0))
		bs := []bool{x.IsPrimaryReserved(), x.IsSecondaryReserved(), x.IsReserved(), x.IsParityShares(), x.IsTailPadding(),
			x.IsPrimaryReservedPadding(), x.IsTx(), x.IsPayForBlob(), x.IsUsableNamespace(), x.ValidateForData() == nil, x.ValidateForBlob() == nil}
		parts := make([]string, len(bs))
		for i, b := range bs {
			parts[i] = showBool(b)
		}
		return strings.Join(parts, " ")
	case "nsnew":
		ns, err := share.NewNamespace(uint8(n(0)), h(1))
		if err != nil {
			return "err"
		}
		return "ok:" + hx(ns.Bytes())
	case "nsfrom":
		ns, err := share.NewNamespaceFromBytes(h(0))
		if err != nil {
			return "err"
		}
		return "ok:" + hx(ns.Bytes())
	case "nsv0":
		ns, err := share.NewV0Namespace(h(0))
		if err != nil {
			return "err"
		}
		return "ok:" + hx(ns.Bytes())
	case "nsadd":
		ns, err := nsOf(h(0)).AddInt(n(1))
		if err != nil {
			return "err"
		}
		return "ok:" + hx(ns.Bytes())
	case "blobnew":
		b, err := share.NewBlob(nsOf(h(0)), h(1), uint8(n(2)), parseSigner(a[3]))
		if err != nil {
			return "err"
		}
		return "ok:" + showBlob(b)
	case "blobshares":
		b, err := share.NewBlob(nsOf(h(0)), h(3), uint8(n(1)), parseSigner(a[2]))
		if err != nil {
			return "err"
		}
		shs, err := b.ToShares()
		if err != nil {
			return "err"
		}
		return "ok:" + showList(hx, rawShares(shs))
	case "pad":
		cnt := n(3)
		switch a[0] {
		case "ns":
			shs, err := share.NamespacePaddingShares(nsOf(h(1)), uint8(n(2)), cnt)
			if err != nil {
				return "err"
			}
			return "ok:" + showList(hx, rawShares(shs))
		case "res":
			return "ok:" + showList(hx, rawShares(share.ReservedPaddingShares(cnt)))
		case "tail":
			return "ok:" + showList(hx, rawShares(share.TailPaddingShares(cnt)))
		}
		panic("harness: bad pad kind")
	case "shinfo":
		return shinfo(h(0))
	case "sparse":
		return sparseItems(splitList(a[0]))
	case "sparserr":
		r := sparseItems(splitList(a[0]))
		if !strings.HasPrefix(r, "ok:") {
			return r
		}
		blobs, err := share.ParseBlobs(sharesOf(hexList(strings.Trim(r[3:], "[]"))))
		if err != nil {
			return "err"
		}
		return "ok:" + showList(showBlob, blobs)
	case "specblob":
		return execOp("blobshares", a)
	case "specpad":
		sh, err := share.NamespacePaddingShare(nsOf(h(0)), uint8(n(1)))
		if err != nil {
			return "err"
		}
		return "ok:" + hx(sh.ToBytes())
	case "speccompact":
		css := share.NewCompactShareSplitter(nsOf(h(0)), share.ShareVersionZero)
		for _, t := range hexList(a[1]) {
			if err := css.WriteTx(t); err != nil {
				return "err"
			}
		}
		shs, err := css.Export()
		if err != nil {
			return "err"
		}
		return showList(hx, rawShares(shs))
	case "compactrt":
		css := share.NewCompactShareSplitter(nsOf(h(0)), share.ShareVersionZero)
		for _, t := range hexList(a[1]) {
			if err := css.WriteTx(t); err != nil {
				return "err"
			}
		}
		cnt := css.Count()
		shs, err := css.Export()
		if err != nil {
			return "err"
		}
		seqLen := uint32(0)
		if len(shs) > 0 {
			seqLen = shs[0].SequenceLen()
		}
		return fmt.Sprintf("%d:%d:%d:%s", cnt, len(shs), seqLen, okBig(share.ParseTxs(shs)))
	case "subranges":
		css := share.NewCompactShareSplitter(nsOf(h(0)), share.ShareVersionZero)
		for _, t := range hexList(a[1]) {
			if err := css.WriteTx(t); err != nil {
				return "err"
			}
		}
		shs, err := css.Export()
		if err != nil {
			return "err"
		}
		var sb strings.Builder
		for lo := 0; lo < len(shs); lo++ {
			for hi := lo + 1; hi <= len(shs); hi++ {
				fmt.Fprintf(&sb, "%d-%d=%s;", lo, hi, okBig(share.ParseTxs(shs[lo:hi])))
			}
		}
		return sb.String()
	case "parseblobs":
		blobs, err := share.ParseBlobs(sharesOf(hexList(a[0])))
		if err != nil {
			return "err"
		}
		return "ok:" + showList(showBlob, blobs)
	case "compact":
		return compactOps(h(0), n(1), splitList(a[2]))
	case "parsetxs":
		return okList(share.ParseTxs(sharesOf(hexList(a[0]))))
	case "parsedelim":
		rest, l, err := share.VerifParseDelimiter(h(0))
		if err != nil {
			if share.VerifIsIncompleteDelimiter(err) {
				return "inc"
			}
			return "err"
		}
		return "ok:" + hx(rest) + ":" + strconv.FormatUint(l, 10)
	case "blobmarshal":
		out, err := blobOfString(a[0]).Marshal()
		if err != nil {
			return "err"
		}
		return hx(out)
	case "blobunmarshal":
		b, err := share.UnmarshalBlob(h(0))
		if err != nil {
			return "err"
		}
		return "ok:" + showBlob(b)
	case "btxmarshal":
		specs := splitList(a[1])
		blobs := make([]*share.Blob, len(specs))
		for i, s := range specs {
			blobs[i] = blobOfString(s)
		}
		out, err := tx.MarshalBlobTx(h(0), blobs...)
		if err != nil {
			return "err"
		}
		return "ok:" + hx(out)
	case "btxunmarshal":
		bt, isBlob, err := tx.UnmarshalBlobTx(h(0))
		if !isBlob {
			return "not"
		}
		if err != nil {
			return "err"
		}
		return "ok:" + hx(bt.Tx) + ":" + showList(showBlob, bt.Blobs)
	case "iwmarshal":
		parts := splitList(a[1])
		idx := make([]uint32, len(parts))
		for i, p := range parts {
			idx[i] = uint32(atou(p))
		}
		out, err := tx.MarshalIndexWrapper(h(0), idx...)
		if err != nil {
			return "err"
		}
		return hx(out)
	case "iwunmarshal":
		iw, ok := tx.UnmarshalIndexWrapper(h(0))
		if !ok {
			return "none"
		}
		return "ok:" + hx(iw.Tx) + ":" + u32s(iw.ShareIndexes)
	case "blobfromproto":
		pb := &v1.BlobProto{NamespaceId: h(0), Data: h(1), ShareVersion: uint32(atou(a[2])), NamespaceVersion: uint32(atou(a[3])), Signer: h(4)}
		if len(pb.Signer) == 0 {
			pb.Signer = nil
		}
		b, err := share.NewBlobFromProto(pb)
		if err != nil {
			return "err"
		}
		return "ok:" + showBlob(b)
	case "build":
		sq, kept, err := square.Build(hexList(a[2]), n(0), n(1))
		if err != nil {
			return "err"
		}
		return "ok:" + showSquare(sq) + ":" + showBigList(kept)
	case "construct":
		sq, err := square.Construct(hexList(a[2]), n(0), n(1))
		if err != nil {
			return "err"
		}
		return "ok:" + showSquare(sq)
	case "condecon":
		sq, err := square.Construct(hexList(a[2]), n(0), n(1))
		if err != nil {
			return "err"
		}
		return okBig(square.Deconstruct(sq, decodeMockPFB))
	case "deconstruct":
		return okBig(square.Deconstruct(square.Square(sharesOf(hexList(a[0]))), decodeMockPFB))
	case "wrappedpfbs":
		return okBig(square.Square(sharesOf(hexList(a[0]))).WrappedPFBs())
	case "txrange":
		r, err := square.TxShareRange(hexList(a[3]), n(2), n(0), n(1))
		if err != nil {
			return "err"
		}
		return fmt.Sprintf("ok:%d-%d", r.Start, r.End)
	case "blobrange":
		r, err := square.BlobShareRange(hexList(a[4]), n(2), n(3), n(0), n(1))
		if err != nil {
			return "err"
		}
		return fmt.Sprintf("ok:%d-%d", r.Start, r.End)
	case "builderops":
		return builderOps(n(0), n(1), splitList(a[2]))
	case "nsrange":
		r := share.GetShareRangeForNamespace(sharesOf(hexList(a[1])), nsOf(h(0)))
		return fmt.Sprintf("%d-%d", r.Start, r.End)
	case "parseshares":
		seqs, err := share.ParseShares(sharesOf(hexList(a[1])), a[0] == "1")
		if err != nil {
			return "err"
		}
		return "ok:" + showList(showSequence, seqs)
	case "sqparseshares":
		sq, err := square.Construct(hexList(a[3]), n(1), n(2))
		if err != nil {
			return "err"
		}
		seqs, err := share.ParseShares(sq, a[0] == "1")
		if err != nil {
			return "err"
		}
		return "ok:" + showList(showSequence, seqs)
	}
	if f, ok := extraOps[op]; ok {
		return f(a)
	}
	panic("harness: unknown op " + op)
}

// extraOps: requests registered by other files (init functions) so that new
// properties do not have to edit the switch above.
var extraOps = map[string]func(a []string) string{}

func init() {
	// the Go side of the spec comparisons is the same call as the plain request;
	// the runner evaluates the rule-based specification instead of the code model
	extraOps["specbuild"] = func(a []string) string { return execOp("build", a) }
	extraOps["specconstruct"] = func(a []string) string { return execOp("construct", a) }
	extraOps["speccompactix"] = func(a []string) string { return execOp("speccompact", a) }
}
