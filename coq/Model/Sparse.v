(* share/split_sparse_shares.go and share/parse_sparse_shares.go *)
From GS.Model Require Import Base Namespace ShareFmt Blob.
Open Scope N_scope.

(* SparseShareSplitter.Write: the loop `for rawData != nil`.  Fuel is the
   length of the data plus one (each iteration consumes at least 458 bytes). *)
Fixpoint sparse_write_loop (fuel : nat) (ns : namespace) (ver : N) (b : sbuilder)
         (data : bytes) (acc : list share) : outcome (list share) :=
  match fuel with
  | O => Err
  | S f =>
    let '(b1, lft) := sb_add_data b data in
    let b2 := match lft with None => fst (sb_zero_pad b1) | Some _ => b1 end in
    do sh <- sb_build b2;
    match lft with
    | None => Ok (acc ++ [sh])
    | Some rest =>
      do nb <- new_builder ns ver false;
      sparse_write_loop f ns ver nb rest (acc ++ [sh])
    end
  end.

Definition sparse_write (bl : blob) : outcome (list share) :=
  if negb ((b_ver bl =? 0) || (b_ver bl =? 1)) then Err else
  do b <- new_builder (b_ns bl) (b_ver bl) true;
  do b1 <- sb_write_seq_len b (lenN (b_data bl));
  let b2 := if b_ver bl =? 1 then sb_write_signer b1 (signer_bytes bl) else b1 in
  sparse_write_loop (S (length (b_data bl))) (b_ns bl) (b_ver bl) b2 (b_data bl) [].

(* Blob.ToShares *)
Definition blob_to_shares (bl : blob) : outcome (list share) := sparse_write bl.

(* Items that can be written to a SparseShareSplitter / laid out around it *)
Inductive sparse_item :=
| IBlob (b : blob)
| INsPad (count : nat)        (* WriteNamespacePaddingShares(count) *)
| IReservedPad (count : nat)  (* ReservedPaddingShares(count), concatenated *)
| ITailPad (count : nat).     (* TailPaddingShares(count), concatenated *)

Definition sparse_write_item (acc : list share) (it : sparse_item) : outcome (list share) :=
  match it with
  | IBlob b => do shs <- sparse_write b; Ok (acc ++ shs)
  | INsPad O => Ok acc
  | INsPad count =>
    match rev acc with
    | [] => Err
    | last :: _ =>
      do pads <- namespace_padding_shares (sh_ns last) (sh_version last) count;
      Ok (acc ++ pads)
    end
  | IReservedPad count => do pads <- reserved_padding_shares count; Ok (acc ++ pads)
  | ITailPad count => do pads <- tail_padding_shares count; Ok (acc ++ pads)
  end.

Fixpoint sparse_write_items (acc : list share) (items : list sparse_item) : outcome (list share) :=
  match items with
  | [] => Ok acc
  | it :: tl => do acc' <- sparse_write_item acc it; sparse_write_items acc' tl
  end.

(* parseSparseShares.  Sequences are kept newest first. *)
Record pseq := mk_pseq {
  q_ns : namespace; q_ver : N; q_data : bytes; q_len : N; q_signer : option bytes
}.

Fixpoint parse_sparse_loop (shares : list share) (seqs : list pseq) : outcome (list pseq) :=
  match shares with
  | [] => Ok seqs
  | s :: tl =>
    if negb (sh_version_supported s) then Err else
    if sh_is_padding s then parse_sparse_loop tl seqs else
    if sh_start s then
      parse_sparse_loop tl
        (mk_pseq (sh_ns s) (sh_version s) (sh_raw_data s) (sh_seq_len s) (sh_signer s) :: seqs)
    else
      match seqs with
      | [] => Err
      | q :: older =>
        parse_sparse_loop tl
          (mk_pseq (q_ns q) (q_ver q) (q_data q ++ sh_raw_data s) (q_len q) (q_signer q) :: older)
      end
  end.

Definition finish_pseq (q : pseq) : outcome blob :=
  if lenN (q_data q) <? q_len q then Err (* repair of defect D6; was data[:seqLen] *)
  else do d <- slice_to (q_len q) (q_data q);
       new_blob (q_ns q) d (q_ver q) (q_signer q).

(* ParseBlobs *)
Definition parse_blobs (shares : list share) : outcome (list blob) :=
  do seqs <- parse_sparse_loop shares [];
  map_outcome finish_pseq (rev seqs).
