(* Lemmas and tactics for reasoning about GoLite programs (Model/GoLite.v). *)
From Coq Require Import Lia ZArith List String.
From GS.Model Require Import GoLite.
Open Scope Z_scope.

Global Arguments Z.quot : simpl never.
Global Arguments Z.rem : simpl never.
Global Arguments Z.mul : simpl never.
Global Arguments Z.add : simpl never.
Global Arguments Z.sub : simpl never.
Global Arguments Z.modulo : simpl never.
Global Arguments Z.div : simpl never.
Global Arguments Z.pow : simpl never.
Global Arguments Z.land : simpl never.
Global Arguments Z.lor : simpl never.
Global Arguments Z.lxor : simpl never.
Global Arguments Z.shiftr : simpl never.
Global Arguments Z.ltb : simpl never.
Global Arguments Z.leb : simpl never.
Global Arguments Z.eqb : simpl never.
Global Arguments wrap : simpl never.

Lemma wrap_I64_small z : -9223372036854775808 <= z < 9223372036854775808 -> wrap I64 z = z.
Proof.
  intros H. unfold wrap.
  rewrite Z.mod_small by lia. lia.
Qed.

Lemma wrap_U64_small z : 0 <= z < 18446744073709551616 -> wrap U64 z = z.
Proof. intros H. unfold wrap. apply Z.mod_small. lia. Qed.

Lemma wrap_U32_small z : 0 <= z < 4294967296 -> wrap U32 z = z.
Proof. intros H. unfold wrap. apply Z.mod_small. lia. Qed.

Lemma wrap_U8_small z : 0 <= z < 256 -> wrap U8 z = z.
Proof. intros H. unfold wrap. apply Z.mod_small. lia. Qed.

(* one unfolding of a call *)
Lemma callf_S ext p n f targ args :
  callf ext p (S n) f targ args =
  match find_fun p f with
  | Some d =>
    match exec (callf ext p n) targ (S n) (fbody d) (bind_params (fparams d) args) with
    | SRet vs en => Val (vs ++ map (lookup en) (fouts d))
    | SNormal en => Val (map (lookup en) (fouts d))
    | SFlt => Flt
    | SFuel => Fuel
    end
  | None => match ext f with Some g => g args | None => Flt end
  end.
Proof. reflexivity. Qed.

(* truncated division on non-negative operands is floor division *)
Lemma quot_nonneg a b : 0 <= a -> 0 < b -> Z.quot a b = a / b.
Proof. intros. apply Z.quot_div_nonneg; lia. Qed.
Lemma rem_nonneg a b : 0 <= a -> 0 < b -> Z.rem a b = a mod b.
Proof. intros. apply Z.rem_mod_nonneg; lia. Qed.

(* the loop of a for statement, as a function of the remaining iterations *)
Definition for_loop (call : caller) (tp : ity) (lf : nat) (c : expr) (body : stmt) :=
  fix loop (n : nat) (en : env) : sres :=
    match n with
    | O => SFuel
    | S n' =>
      match eval call tp en c with
      | Val v =>
        if v =? 0 then SNormal en else
        match exec call tp lf body en with
        | SNormal en' => loop n' en'
        | r => r
        end
      | Flt => SFlt | Fuel => SFuel
      end
    end.

Lemma exec_for call tp lf c body en :
  exec call tp lf (SFor c body) en = for_loop call tp lf c body lf en.
Proof. reflexivity. Qed.

Lemma for_loop_S call tp lf c body n en :
  for_loop call tp lf c body (S n) en =
  match eval call tp en c with
  | Val v =>
    if v =? 0 then SNormal en else
    match exec call tp lf body en with
    | SNormal en' => for_loop call tp lf c body n en'
    | r => r
    end
  | Flt => SFlt | Fuel => SFuel
  end.
Proof. reflexivity. Qed.
