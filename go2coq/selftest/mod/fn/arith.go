// Package fn: functions inside the fragment go2coq translates (every file except refuse.go) and
// functions it must refuse (refuse.go).  bin/go2coqtest runs each translated function in Go and in
// the GoLite semantics on the same arguments and compares the results.
package fn

import "math"

// ---- + - * / % at every width, with overflow

func AddI(a, b int) int                   { return a + b }
func SubI(a, b int) int                   { return a - b }
func MulI(a, b int) int                   { return a * b }
func QuoI(a, b int) int                   { return a / b }
func RemI(a, b int) int                   { return a % b }
func ArithI64(a, b int64) int64           { return (a+b)*(a-b) - a*b }
func QuoRemI64(a, b int64) (int64, int64) { return a / b, a % b }
func NegI(a int) int                      { return -a }
func PosNegI64(a int64) int64             { return +a - (-a) }

func AddU64(a, b uint64) uint64              { return a + b }
func SubU64(a, b uint64) uint64              { return a - b }
func MulU64(a, b uint64) uint64              { return a * b }
func QuoRemU64(a, b uint64) (uint64, uint64) { return a / b, a % b }
func NegU64(a uint64) uint64                 { return -a }
func ArithUint(a, b uint) uint               { return a*b + a - b }

func ArithU32(a, b uint32) uint32            { return a*b + a - b }
func QuoRemU32(a, b uint32) (uint32, uint32) { return a / b, a % b }
func NegU32(a uint32) uint32                 { return -a }

func ArithU8(a, b uint8) uint8        { return a*b + a - b }
func QuoRemU8(a, b byte) (byte, byte) { return a / b, a % b }
func NegU8(a uint8) uint8             { return -a }

// ---- & | ^

func BitsI(a, b int) int         { return (a & b) | (a ^ b) ^ (b | 1) }
func AndI(a, b int64) int64      { return a & b }
func OrI(a, b int64) int64       { return a | b }
func XorI(a, b int64) int64      { return a ^ b }
func BitsU64(a, b uint64) uint64 { return (a & b) ^ (a | b) }
func BitsU32(a, b uint32) uint32 { return (a ^ b) & (a | 0xff00ff00) }
func BitsU8(a, b uint8) uint8    { return (a | b) ^ (a & 0x5a) }

// ---- constants and constant expressions (folded by the type checker)

const (
	kA           = 474
	kB           = kA*2 + 1
	kBig         = 1 << 62
	kNeg         = -7
	kLocal       = kB % 10
	kHuge        = 1 << 100
	kU8    uint8 = 200
)

type Celsius int

const freezing Celsius = -273

func Consts(x int) int {
	return x + kA + kB - kLocal + kNeg/2 + kHuge>>98 + len("abc")
}
func ConstsMinMax(x int64) (int64, int64, uint64) {
	return x + math.MaxInt64, x + math.MinInt64, uint64(x) + math.MaxUint64
}
func ConstsU(x uint64) uint64   { return x*kBig + (1 << 63) + uint64(kU8) }
func ConstsU8(x uint8) uint8    { return x + kU8 + 0x37 }
func ConstsU32(x uint32) uint32 { return x*math.MaxUint32 + 1<<31 }
func ConstBool(x int) bool      { return true && (x > kNeg || false) }
func NamedType(c Celsius) Celsius {
	return c - freezing + Celsius(2)*c
}
func ConstRune(x int, b byte) (int, byte) { return x + 'a', b - '0' }
func ConstFloatLit(x int) int             { return x/2.0 + 1e3 }
func Uintptr(a uintptr, b uint) uintptr   { return a*3 - uintptr(b) }
