(* A Gallina re-implementation of runner/driver.ml: the same request parsing, the same dispatch
   on the op name and the same canonical printing, but evaluated INSIDE Coq with vm_compute on the
   model definitions themselves (no extraction, no OCaml compiler, no driver.ml).  bin/vmcross
   evaluates a sample of the harness cases through [run_op] and compares the strings with what
   runner/model_runner printed for the same lines (run with VERIF_FULL=1, so that the long lists are
   printed in full instead of as MD5 digests; [show_big_list] below is the VERIF_FULL=1 branch).

   Conventions copied from driver.ml: bytes are lower-case hex, "-" is the empty byte string,
   numbers are decimal, lists are comma separated, [arg i] is the i-th TAB separated field after
   the op.  Where driver.ml would raise (failwith / Invalid_argument: malformed request) [run_op]
   answers "vm-badinput"; an op that is not implemented here answers "vm-unsupported".
   Definitions only; nothing is proved in this file. *)
From Coq Require Import String Ascii.
From GS.Spec Require Import ShareSpec CompactSpec LayoutSpec.
From GS.Model Require Import Base Varint Namespace ShareFmt Blob Sparse Compact Counter Arith Proto Builder Square.
From GS.Model Require Import Sha256 Nmt Mem.
From GS.Model Require Import Helpers.
Open Scope N_scope.

Definition str := String.string.
Bind Scope string_scope with str.
Definition bad : str := "vm-badinput"%string.
Definition unsupported : str := "vm-unsupported"%string.

(* ---- output: difference lists of characters ---- *)
Definition shows := str -> str.
Definition s_nil : shows := fun r => r.
Definition s_chr (c : ascii) : shows := fun r => String c r.
Definition s_str (s : str) : shows := fun r => String.append s r.
Definition s_cat (a b : shows) : shows := fun r => a (b r).
Infix "+>" := s_cat (at level 61, left associativity).
Definition render (s : shows) : str := s EmptyString.

Definition digit_char (n : N) : ascii := ascii_of_N (48 + n).
Definition hex_char (n : N) : ascii := ascii_of_N (if n <? 10 then 48 + n else 87 + n).

Fixpoint show_N_aux (fuel : nat) (n : N) (acc : str) : str :=
  match fuel with
  | O => acc
  | S f => match n with
           | 0 => acc
           | _ => show_N_aux f (n / 10) (String (digit_char (n mod 10)) acc)
           end
  end.
Definition show_N (n : N) : str :=
  match n with 0 => "0"%string | _ => show_N_aux (N.size_nat n) n EmptyString end.
Definition show_Z (z : Z) : str :=
  match z with
  | Z0 => "0"%string
  | Zpos p => show_N (Npos p)
  | Zneg p => String "-"%char (show_N (Npos p))
  end.
Definition s_N (n : N) : shows := s_str (show_N n).
Definition s_Z (z : Z) : shows := s_str (show_Z z).
Definition s_nat (n : nat) : shows := s_N (N.of_nat n).
Definition s_len {A} (l : list A) : shows := s_N (lenN l).
Definition s_bool (b : bool) : shows := s_chr (if b then "1"%char else "0"%char).

Fixpoint s_hex_raw (b : bytes) (r : str) : str :=
  match b with
  | [] => r
  | x :: t => let n := b2n x in String (hex_char (n / 16)) (String (hex_char (n mod 16)) (s_hex_raw t r))
  end.
Definition s_hex (b : bytes) : shows :=
  match b with [] => s_chr "-"%char | _ => s_hex_raw b end.

Fixpoint s_sep_aux {A} (sep : str) (f : A -> shows) (x : A) (l : list A) (r : str) : str :=
  match l with
  | [] => f x r
  | y :: t => f x (String.append sep (s_sep_aux sep f y t r))
  end.
(* String.concat sep (List.map f l) *)
Definition s_sep {A} (sep : str) (f : A -> shows) (l : list A) : shows :=
  match l with [] => s_nil | x :: t => s_sep_aux sep f x t end.
Definition s_list {A} (f : A -> shows) (l : list A) : shows :=
  s_chr "["%char +> s_sep ","%string f l +> s_chr "]"%char.
Definition s_outcome {A} (f : A -> shows) (o : outcome A) : shows :=
  match o with
  | Ok a => s_str "ok:"%string +> f a
  | Err => s_str "err"%string
  | Fault => s_str "fault"%string
  end.
(* VERIF_FULL=1 *)
Definition s_big_list (l : list bytes) : shows := s_list s_hex l.

Definition s_signer (s : option bytes) : shows :=
  match s with None => s_str "nil"%string | Some b => s_hex b end.
Definition s_blob (b : blob) : shows :=
  s_hex (b_ns b) +> s_chr ":"%char +> s_N (b_ver b) +> s_chr ":"%char +> s_signer (b_signer b)
  +> s_chr ":"%char +> s_hex (b_data b).
Definition s_range (r : N * N) : shows := s_N (fst r) +> s_chr "-"%char +> s_N (snd r).
Definition s_zrange (r : Z * Z) : shows := s_Z (fst r) +> s_chr "-"%char +> s_Z (snd r).
Definition s_square (sq : list share) : shows :=
  s_N (square_size (lenN sq)) +> s_chr ":"%char +> s_big_list sq.

(* ---- input ---- *)
Definition obind {A B} (o : option A) (f : A -> option B) : option B :=
  match o with Some a => f a | None => None end.
Notation "'let?' x ':=' o 'in' k" := (obind o (fun x => k))
  (at level 200, x pattern, o at level 100, k at level 200, right associativity).
(* the final step: an unparsable request prints "vm-badinput" *)
Definition fin (o : option shows) : str :=
  match o with Some s => render s | None => bad end.

Fixpoint omap {A B} (f : A -> option B) (l : list A) : option (list B) :=
  match l with
  | [] => Some []
  | x :: t => let? y := f x in let? ys := omap f t in Some (y :: ys)
  end.

Definition digitval (c : ascii) : option N :=
  let n := N_of_ascii c in
  if (48 <=? n) && (n <=? 57) then Some (n - 48) else None.
Definition hexval (c : ascii) : option N :=
  let n := N_of_ascii c in
  if (48 <=? n) && (n <=? 57) then Some (n - 48)
  else if (97 <=? n) && (n <=? 102) then Some (n - 87) else None.

Fixpoint n_of_string_aux (s : str) (acc : N) : option N :=
  match s with
  | EmptyString => Some acc
  | String c t => let? d := digitval c in n_of_string_aux t (acc * 10 + d)
  end.
Definition n_of_string (s : str) : option N := n_of_string_aux s 0.
Definition z_of_string (s : str) : option Z :=
  match s with
  | String "-"%char t =>
    let? n := n_of_string t in Some (match n with 0 => Z0 | Npos p => Zneg p end)
  | _ => let? n := n_of_string s in Some (Z.of_N n)
  end.
(* nat_of_int (int_of_string s), decimal only: negative numbers give O; no digit at all is an error *)
Definition nat_of_string (s : str) : option nat :=
  match s with
  | EmptyString => None
  | String "-"%char EmptyString => None
  | _ => let? z := z_of_string s in Some (Z.to_nat z)
  end.

Fixpoint hex_raw (s : str) : option bytes :=
  match s with
  | String a (String b t) =>
    let? x := hexval a in let? y := hexval b in let? r := hex_raw t in Some (n2b (16 * x + y) :: r)
  | _ => Some []
  end.
Definition is_str (a b : str) : bool := String.eqb a b.
Definition bytes_of_hex (s : str) : option bytes :=
  if is_str s "-" then Some [] else hex_raw s.

(* String.split_on_char: never the empty list *)
Fixpoint split_on (sep : ascii) (s : str) : list str :=
  match s with
  | EmptyString => [EmptyString]
  | String c t =>
    if Ascii.eqb c sep then EmptyString :: split_on sep t
    else match split_on sep t with
         | h :: r => String c h :: r
         | [] => [String c EmptyString]
         end
  end.
Definition split_list (s : str) : list str :=
  match s with EmptyString => [] | _ => split_on ","%char s end.
Definition hex_list (s : str) : option (list bytes) := omap bytes_of_hex (split_list s).
Definition n_list (s : str) : option (list N) := omap n_of_string (split_list s).

Definition parse_signer (s : str) : option (option bytes) :=
  if is_str s "nil" then Some None else let? b := bytes_of_hex s in Some (Some b).
Definition blob_of_string (s : str) : option blob :=
  match split_on ":"%char s with
  | [ns; ver; sg; data] =>
    let? ns := bytes_of_hex ns in let? data := bytes_of_hex data in
    let? ver := n_of_string ver in let? sg := parse_signer sg in
    Some (mk_blob ns data ver sg)
  | _ => None
  end.
Definition blob_list (s : str) : option (list blob) := omap blob_of_string (split_list s).

(* s.[0] and String.sub s k (length s - k) *)
Definition head_tail (s : str) : option (ascii * str) :=
  match s with String c t => Some (c, t) | EmptyString => None end.
Definition head_tail2 (s : str) : option (ascii * str) :=
  match s with String c (String _ t) => Some (c, t) | _ => None end.
Definition chr_is (c d : ascii) : bool := Ascii.eqb c d.

(* ---- ops ---- *)
Definition consts : shows :=
  s_sep ";"%string (fun x => x) [
    s_str "share_size=" +> s_nat share_size;
    s_str "ns_size=" +> s_nat ns_size;
    s_str "first_compact=" +> s_N first_compact_content;
    s_str "cont_compact=" +> s_N cont_compact_content;
    s_str "first_sparse=" +> s_N first_sparse_content;
    s_str "cont_sparse=" +> s_N cont_sparse_content;
    s_str "signer_size=" +> s_nat signer_size;
    s_str "max_share_version=" +> s_N max_share_version;
    s_str "tx_ns=" +> s_hex tx_ns;
    s_str "isr_ns=" +> s_hex isr_ns;
    s_str "pfb_ns=" +> s_hex pfb_ns;
    s_str "prp_ns=" +> s_hex primary_reserved_padding_ns;
    s_str "maxprim_ns=" +> s_hex max_primary_reserved_ns;
    s_str "minsec_ns=" +> s_hex min_secondary_reserved_ns;
    s_str "tail_ns=" +> s_hex tail_padding_ns;
    s_str "parity_ns=" +> s_hex parity_ns;
    s_str "blob_type_id=" +> s_hex type_id_blob;
    s_str "indx_type_id=" +> s_hex type_id_indx;
    s_str "worst_index=" +> s_list s_N (worst_case_share_indexes 2) ].

Fixpoint counter_ops (c : counter) (ops : list str) : option (list shows) :=
  match ops with
  | [] => Some []
  | op :: t =>
    if is_str op "r" then
      let c' := counter_revert c in
      let? rest := counter_ops c' t in
      Some ((s_str "-/" +> s_Z (counter_size c') +> s_chr "/"%char +> s_Z (counter_remainder c')) :: rest)
    else
      let? ht := head_tail op in
      let? n := z_of_string (snd ht) in
      let '(c', d) := counter_add c n in
      let? rest := counter_ops c' t in
      Some ((s_Z d +> s_chr "/"%char +> s_Z (counter_size c') +> s_chr "/"%char +> s_Z (counter_remainder c')) :: rest)
  end.

Definition sparse_item_of_string (s : str) : option sparse_item :=
  let? ht := head_tail s in
  let c := fst ht in
  let? ht2 := head_tail2 s in
  let rest := snd ht2 in
  if chr_is c "b" then let? b := blob_of_string rest in Some (IBlob b)
  else if chr_is c "n" then let? k := nat_of_string rest in Some (INsPad k)
  else if chr_is c "r" then let? k := nat_of_string rest in Some (IReservedPad k)
  else if chr_is c "t" then let? k := nat_of_string rest in Some (ITailPad k)
  else None.
Definition sparse_items (s : str) : option (list sparse_item) := omap sparse_item_of_string (split_list s).

Definition shinfo (s : share) : shows :=
  s_sep " "%string (fun x => x) [
    s_hex (sh_ns s); s_N (sh_version s); s_bool (sh_start s);
    s_bool (sh_is_compact s); s_N (sh_seq_len s); s_signer (sh_signer s);
    s_bool (sh_is_padding s); s_bool (sh_version_supported s); s_hex (sh_raw_data s);
    s_outcome s_hex (sh_raw_data_using_reserved s) ].

(* the op sequence of compact_ops: splitter state, the distinct written transactions in order *)
Fixpoint compact_steps (c : csplitter) (written : list bytes) (ops : list str)
  : option (list shows * csplitter * list bytes) :=
  match ops with
  | [] => Some ([], c, written)
  | op :: t =>
    let? ht := head_tail op in
    let k := fst ht in
    if chr_is k "w" then
      let? tx := bytes_of_hex (snd ht) in
      match cs_write_tx c tx with
      | Ok c' =>
        let written' := if existsb (fun t => bytes_eqb t tx) written then written else written ++ [tx] in
        let? r := compact_steps c' written' t in
        let '(outs, cf, wf) := r in Some (s_str "w:ok" :: outs, cf, wf)
      | Err => let? r := compact_steps c written t in
        let '(outs, cf, wf) := r in Some (s_str "w:err" :: outs, cf, wf)
      | Fault => let? r := compact_steps c written t in
        let '(outs, cf, wf) := r in Some (s_str "w:fault" :: outs, cf, wf)
      end
    else if chr_is k "e" then
      match cs_export c with
      | Ok (c', shs) => let? r := compact_steps c' written t in
        let '(outs, cf, wf) := r in Some ((s_str "e:ok:" +> s_list s_hex shs) :: outs, cf, wf)
      | Err => let? r := compact_steps c written t in
        let '(outs, cf, wf) := r in Some (s_str "e:err" :: outs, cf, wf)
      | Fault => let? r := compact_steps c written t in
        let '(outs, cf, wf) := r in Some (s_str "e:fault" :: outs, cf, wf)
      end
    else if chr_is k "c" then
      let? r := compact_steps c written t in
      let '(outs, cf, wf) := r in Some ((s_str "c:" +> s_N (cs_count c)) :: outs, cf, wf)
    else None
  end.
Definition compact_ops (ns : bytes) (ver : N) (ops : list str) : option shows :=
  match new_csplitter ns ver with
  | Err => Some (s_str "err")
  | Fault => Some (s_str "fault")
  | Ok c0 =>
    let? r := compact_steps c0 [] ops in
    let '(outs, c, written) := r in
    let show_r tx := match cs_share_range c 3 tx with Some r => s_range r | None => s_str "none" end in
    Some (s_sep ";"%string (fun x => x) outs +> s_str ";R:" +> s_sep ","%string show_r written)
  end.

Definition write_all (ns : bytes) (txs : list bytes) : outcome csplitter :=
  fold_left (fun acc t => bind acc (fun c => cs_write_tx c t)) txs (new_csplitter ns 0).

Definition compact_rt (ns : bytes) (txs : list bytes) : shows :=
  match write_all ns txs with
  | Err => s_str "err" | Fault => s_str "fault"
  | Ok c =>
    let cnt := cs_count c in
    match cs_export c with
    | Err => s_str "err" | Fault => s_str "fault"
    | Ok (_, shs) =>
      let seqlen := match shs with s :: _ => sh_seq_len s | [] => 0 end in
      s_N cnt +> s_chr ":"%char +> s_len shs +> s_chr ":"%char +> s_N seqlen +> s_chr ":"%char
      +> s_outcome s_big_list (parse_txs shs)
    end
  end.

(* ParseTxs on every contiguous sub-range [lo, hi) of the exported sequence *)
Fixpoint subranges_hi (lo : N) (tail : list share) (k : nat) (n : nat) : shows :=
  (* prints the entries hi = lo+k .. lo+k+n-1 *)
  match n with
  | O => s_nil
  | S n' =>
    s_N lo +> s_chr "-"%char +> s_N (lo + N.of_nat k) +> s_chr "="%char
    +> s_outcome s_big_list (parse_txs (firstn k tail)) +> s_chr ";"%char
    +> subranges_hi lo tail (S k) n'
  end.
Fixpoint subranges_lo (lo : N) (tail : list share) : shows :=
  match tail with
  | [] => s_nil
  | _ :: t => subranges_hi lo tail 1 (length tail) +> subranges_lo (lo + 1) t
  end.
Definition subranges (ns : bytes) (txs : list bytes) : shows :=
  match bind (write_all ns txs) cs_export with
  | Err => s_str "err" | Fault => s_str "fault"
  | Ok (_, shs) => subranges_lo 0 shs
  end.

Definition s_delim (d : delim_result) : shows :=
  match d with
  | DelimOk rest l => s_str "ok:" +> s_hex rest +> s_chr ":"%char +> s_N l
  | DelimIncomplete => s_str "inc" | DelimErr => s_str "err" | DelimFault => s_str "fault"
  end.
Definition s_ubt (u : ubt_result) : shows :=
  match u with
  | UbtNot => s_str "not" | UbtErr => s_str "err"
  | UbtOk t => s_str "ok:" +> s_hex (btx_tx t) +> s_chr ":"%char +> s_list s_blob (btx_blobs t)
  end.

Fixpoint builder_steps (b : builder) (ops : list str) : option (list shows) :=
  match ops with
  | [] => Some []
  | op :: t =>
    let? ht := head_tail op in
    let k := fst ht in
    let a := snd ht in
    let cur (b : builder) := s_Z (bd_cur b) in
    if chr_is k "t" then
      let? tx := bytes_of_hex a in
      let '(b', ok) := append_tx b tx in
      let? rest := builder_steps b' t in
      Some ((s_str "t:" +> s_bool ok +> s_chr ":"%char +> cur b') :: rest)
    else if chr_is k "b" then
      let? raw := bytes_of_hex a in
      match unmarshal_blob_tx raw with
      | UbtOk bt =>
        let '(b', ok) := append_blob_tx b bt in
        let? rest := builder_steps b' t in
        Some ((s_str "b:" +> s_bool ok +> s_chr ":"%char +> cur b') :: rest)
      | _ => let? rest := builder_steps b t in Some (s_str "b:undecodable" :: rest)
      end
    else if chr_is k "z" then
      (* AppendBlobTx with a blob transaction that carries no blobs (only reachable through the builder API) *)
      let? inner := bytes_of_hex a in
      let '(b', ok) := append_blob_tx b (mk_btx inner []) in
      let? rest := builder_steps b' t in
      Some ((s_str "z:" +> s_bool ok +> s_chr ":"%char +> cur b') :: rest)
    else if chr_is k "x" then
      match export b with
      | Ok (b', sq) => let? rest := builder_steps b' t in Some ((s_str "x:ok:" +> s_square sq) :: rest)
      | Err => let? rest := builder_steps b t in Some (s_str "x:err" :: rest)
      | Fault => let? rest := builder_steps b t in Some (s_str "x:fault" :: rest)
      end
    else if chr_is k "r" then
      let? i := z_of_string a in
      match find_tx_share_range b i with
      | Ok (b', r) => let? rest := builder_steps b' t in Some ((s_str "r:ok:" +> s_zrange r) :: rest)
      | Err => let? rest := builder_steps b t in Some (s_str "r:err" :: rest)
      | Fault => let? rest := builder_steps b t in Some (s_str "r:fault" :: rest)
      end
    else if chr_is k "s" then
      match split_on "/"%char a with
      | [p; j] =>
        let? p := z_of_string p in
        let? j := z_of_string j in
        match find_blob_starting_index b p j with
        | Ok (b', i) =>
          let? rest := builder_steps b' t in
          Some ((s_str "s:ok:" +> s_N i +> s_chr ":"%char +> s_outcome s_N (blob_share_length b' p j)) :: rest)
        | Err => let? rest := builder_steps b t in Some (s_str "s:err" :: rest)
        | Fault => let? rest := builder_steps b t in Some (s_str "s:fault" :: rest)
        end
      | _ => None
      end
    else if chr_is k "l" then
      (* BlobShareLength alone (it does not export) *)
      match split_on "/"%char a with
      | [p; j] =>
        let? p := z_of_string p in
        let? j := z_of_string j in
        let? rest := builder_steps b t in
        Some ((s_str "l:" +> s_outcome s_N (blob_share_length b p j)) :: rest)
      | _ => None
      end
    else if chr_is k "w" then
      let? i := z_of_string a in
      match get_wrapped_pfb b i with
      | Ok (b', p) =>
        let? rest := builder_steps b' t in
        Some ((s_str "w:ok:" +> s_hex (pfb_tx p) +> s_chr ":"%char +> s_list s_N (pfb_idx p)) :: rest)
      | Err => let? rest := builder_steps b t in Some (s_str "w:err" :: rest)
      | Fault => let? rest := builder_steps b t in Some (s_str "w:fault" :: rest)
      end
    else if chr_is k "q" then
      let? rest := builder_steps b t in
      Some ((s_str "q:" +> cur b +> s_chr ":"%char +> s_len (bd_txs b) +> s_chr ":"%char +> s_len (bd_pfbs b)
             +> s_chr ":"%char +> s_len (bd_blobs b) +> s_chr ":"%char +> s_Z (counter_size (bd_txc b))
             +> s_chr ":"%char +> s_Z (counter_size (bd_pfbc b))) :: rest)
    else None
  end.
Definition builder_ops (max : Z) (thr : N) (ops : list str) : option shows :=
  if negb (new_builder_ok max) then Some (s_str "err")
  else let? outs := builder_steps (empty_builder (Z.to_N max) thr) ops in
       Some (s_sep ";"%string (fun x => x) outs).

Definition s_sequence (s : sequence) : shows :=
  s_hex (sq_ns s) +> s_chr "/"%char +> s_len (sq_shares s) +> s_chr "/"%char
  +> s_bool (match sq_shares s with [sh] => sh_is_padding sh | _ => false end) +> s_chr "/"%char
  +> match sequence_raw_data s with
     | Ok d => s_str "ok:" +> s_hex d
     | Err => s_str "err" | Fault => s_str "fault"
     end.

(* C05 *)
Definition s_obytes (o : outcome bytes) : shows := s_outcome s_hex o.
Definition c05_rownode (row : list bytes) (start len : N) : shows :=
  let leaves := row_leaves row in
  if negb (nmt_push_ok leaves) then s_str "err" else
  let hashes := nmt_leaf_hashes sha256 leaves in
  let f := hash_node_o sha256 in
  let e : outcome bytes := Ok (nmt_empty_root sha256) in
  let a := nmt_subtree_root sha256 leaves start (start + len) in
  let b := match a with
           | Ok _ => match inner_node f e hashes start len with
                     | Some v => s_obytes v
                     | None => s_str "none"
                     end
           | _ => s_str "-"
           end in
  let nrow := lenN row in
  let c := match a with
           | Ok _ => if N.land nrow (nrow - 1) =? 0 then mroot f e (level_nodes f e hashes len)
                     else nmt_compute_root sha256 hashes
           | _ => nmt_compute_root sha256 hashes
           end in
  s_obytes a +> s_chr ";"%char +> b +> s_chr ";"%char +> s_obytes c.

(* C17 *)
Definition c17_view (v : str) : option (nat * nat) :=
  match split_on ":"%char v with
  | [o; c] => let? o := nat_of_string o in let? c := nat_of_string c in Some (o, c)
  | _ => None
  end.
Definition c17_views (s : str) : option (list (nat * nat)) := omap c17_view (split_list s).
Definition c17_diff (d : option nat) : shows :=
  match d with None => s_str "none" | Some i => s_nat i end.

(* ---- dispatch ---- *)
Section Run.
  Context (a : list str).
  Definition arg (i : nat) : option str := nth_error a i.
  Definition aN (i : nat) : option N := let? s := arg i in n_of_string s.
  Definition aZ (i : nat) : option Z := let? s := arg i in z_of_string s.
  Definition aH (i : nat) : option bytes := let? s := arg i in bytes_of_hex s.
  Definition aHL (i : nat) : option (list bytes) := let? s := arg i in hex_list s.
  Definition aSigner (i : nat) : option (option bytes) := let? s := arg i in parse_signer s.
  Definition aFlag (i : nat) : option bool := let? s := arg i in Some (is_str s "1").

  Definition run_arith (op : str) : option shows :=
    if is_str op "rup" then let? x := aN 0 in Some (s_N (round_up_pow2 x))
    else if is_str op "rdown" then let? x := aZ 0 in Some (s_outcome s_N (round_down_pow2 x))
    else if is_str op "ispow2" then let? x := aZ 0 in Some (s_bool (is_pow2 x))
    else if is_str op "minsq" then let? x := aN 0 in Some (s_N (blob_min_square_size x))
    else if is_str op "sqsize" then let? x := aN 0 in Some (s_N (square_size x))
    else if is_str op "stw" then let? x := aN 0 in let? y := aN 1 in Some (s_N (subtree_width x y))
    else if is_str op "rumo" then let? x := aN 0 in let? y := aN 1 in Some (s_N (round_up_by_multiple_of x y))
    else if is_str op "nsi" then
      let? x := aN 0 in let? y := aN 1 in let? z := aN 2 in Some (s_N (next_share_index x y z))
    else if is_str op "mmr" then let? x := aN 0 in let? y := aN 1 in Some (s_list s_N (mmr_sizes x y))
    else if is_str op "bsu" then
      let? x := aN 0 in let? y := aN 1 in let? s := arg 2 in let? l := n_list s in
      let '(used, idx) := blob_shares_used x y l in
      Some (s_N used +> s_chr ":"%char +> s_list s_N idx)
    else if is_str op "cneed" then let? x := aN 0 in Some (s_N (compact_shares_needed x))
    else if is_str op "sneed" then let? x := aN 0 in Some (s_N (sparse_shares_needed x))
    else if is_str op "cavail" then let? x := aZ 0 in Some (s_Z (available_compact x))
    else if is_str op "savail" then let? x := aZ 0 in Some (s_Z (available_sparse x))
    else if is_str op "delimlen" then let? x := aN 0 in Some (s_N (delim_len x))
    else if is_str op "counter" then
      let? s := arg 0 in let? outs := counter_ops new_counter (split_list s) in
      Some (s_sep ","%string (fun x => x) outs)
    else None.

  Definition run_ns (op : str) : option shows :=
    if is_str op "nscmp" then
      let? x := aH 0 in let? y := aH 1 in
      Some (s_sep " "%string (fun x => x)
              [ s_Z (ns_compare x y); s_bool (ns_equals x y); s_bool (ns_lt x y);
                s_bool (ns_le x y); s_bool (ns_gt x y); s_bool (ns_ge x y) ])
    else if is_str op "nsinfo" then
      let? x := aH 0 in
      Some (s_sep " "%string s_bool
              [ is_primary_reserved x; is_secondary_reserved x; is_reserved x; is_parity x; is_tail_padding x;
                is_primary_reserved_padding x; is_tx x; is_pfb x; is_usable x; validate_for_data x;
                validate_for_blob x ])
    else if is_str op "nsnew" then let? v := aN 0 in let? x := aH 1 in Some (s_outcome s_hex (new_namespace v x))
    else if is_str op "nsfrom" then let? x := aH 0 in Some (s_outcome s_hex (new_namespace_from_bytes x))
    else if is_str op "nsv0" then let? x := aH 0 in Some (s_outcome s_hex (new_v0_namespace x))
    else if is_str op "nsadd" then let? x := aH 0 in let? k := aZ 1 in Some (s_outcome s_hex (add_int x k))
    else None.

  Definition run_share (op : str) : option shows :=
    if is_str op "blobnew" then
      let? ns := aH 0 in let? d := aH 1 in let? v := aN 2 in let? sg := aSigner 3 in
      Some (s_outcome s_blob (new_blob ns d v sg))
    else if is_str op "blobshares" then
      let? ns := aH 0 in let? d := aH 3 in let? v := aN 1 in let? sg := aSigner 2 in
      Some (s_outcome (s_list s_hex) (bind (new_blob ns d v sg) blob_to_shares))
    else if is_str op "pad" then
      let? cs := arg 3 in let? cnt := nat_of_string cs in
      let? kind := arg 0 in
      if is_str kind "ns" then
        let? ns := aH 1 in let? v := aN 2 in
        Some (s_outcome (s_list s_hex) (namespace_padding_shares ns v cnt))
      else if is_str kind "res" then Some (s_outcome (s_list s_hex) (reserved_padding_shares cnt))
      else if is_str kind "tail" then Some (s_outcome (s_list s_hex) (tail_padding_shares cnt))
      else None
    else if is_str op "shinfo" then let? s := aH 0 in Some (shinfo s)
    else if is_str op "sparse" then
      let? s := arg 0 in let? items := sparse_items s in
      Some (s_outcome (s_list s_hex) (sparse_write_items [] items))
    else if is_str op "sparserr" then
      let? s := arg 0 in let? items := sparse_items s in
      Some (s_outcome (s_list s_blob) (bind (sparse_write_items [] items) parse_blobs))
    else if is_str op "specblob" then
      let? ns := aH 0 in let? d := aH 3 in let? v := aN 1 in let? sg := aSigner 2 in
      Some (s_outcome (s_list s_hex) (bind (new_blob ns d v sg) (fun b => Ok (blob_spec b))))
    else if is_str op "specpad" then
      let? ns := aH 0 in let? v := aN 1 in Some (s_outcome s_hex (Ok (padding_spec ns v)))
    else if is_str op "speccompact" then
      let? ns := aH 0 in let? txs := aHL 1 in Some (s_list s_hex (compact_spec ns 0 txs))
    else if is_str op "speccompactix" then
      let? ns := aH 0 in let? txs := aHL 1 in Some (s_list s_hex (compact_spec_ix ns 0 txs))
    else if is_str op "compactrt" then let? ns := aH 0 in let? txs := aHL 1 in Some (compact_rt ns txs)
    else if is_str op "subranges" then let? ns := aH 0 in let? txs := aHL 1 in Some (subranges ns txs)
    else if is_str op "parseblobs" then let? shs := aHL 0 in Some (s_outcome (s_list s_blob) (parse_blobs shs))
    else if is_str op "compact" then
      let? ns := aH 0 in let? v := aN 1 in let? s := arg 2 in compact_ops ns v (split_list s)
    else if is_str op "parsetxs" then let? shs := aHL 0 in Some (s_outcome (s_list s_hex) (parse_txs shs))
    else if is_str op "parsedelim" then let? x := aH 0 in Some (s_delim (parse_delimiter x))
    else None.

  Definition run_proto (op : str) : option shows :=
    if is_str op "blobmarshal" then
      let? s := arg 0 in let? b := blob_of_string s in Some (s_hex (marshal_blob b))
    else if is_str op "blobunmarshal" then let? x := aH 0 in Some (s_outcome s_blob (unmarshal_blob x))
    else if is_str op "btxmarshal" then
      let? tx := aH 0 in let? s := arg 1 in let? bl := blob_list s in
      Some (s_outcome s_hex (marshal_blob_tx tx bl))
    else if is_str op "btxunmarshal" then let? x := aH 0 in Some (s_ubt (unmarshal_blob_tx x))
    else if is_str op "iwmarshal" then
      let? tx := aH 0 in let? s := arg 1 in let? idx := n_list s in
      Some (s_hex (marshal_index_wrapper tx idx))
    else if is_str op "iwunmarshal" then
      let? x := aH 0 in
      Some (match unmarshal_index_wrapper x with
            | Some w => s_str "ok:" +> s_hex (iw_tx w) +> s_chr ":"%char +> s_list s_N (iw_idx w)
            | None => s_str "none"
            end)
    else if is_str op "blobfromproto" then
      let? nsid := aH 0 in let? d := aH 1 in let? sv := aN 2 in let? nv := aN 3 in let? sg := aH 4 in
      Some (s_outcome s_blob (new_blob_from_proto (mk_bp nsid d sv nv sg)))
    else None.

  Definition s_build (o : outcome (list share * list bytes)) : shows :=
    match o with
    | Ok (sq, kept) => s_str "ok:" +> s_square sq +> s_chr ":"%char +> s_big_list kept
    | Err => s_str "err" | Fault => s_str "fault"
    end.

  Definition run_square (op : str) : option shows :=
    if is_str op "build" then
      let? txs := aHL 2 in let? m := aZ 0 in let? thr := aN 1 in Some (s_build (build txs m thr))
    else if is_str op "construct" then
      let? txs := aHL 2 in let? m := aZ 0 in let? thr := aN 1 in
      Some (s_outcome s_square (construct txs m thr))
    else if is_str op "specbuild" then
      let? txs := aHL 2 in let? m := aZ 0 in let? thr := aN 1 in Some (s_build (layout_build txs m thr))
    else if is_str op "specconstruct" then
      let? txs := aHL 2 in let? m := aZ 0 in let? thr := aN 1 in
      Some (s_outcome s_square (layout_construct txs m thr))
    else if is_str op "condecon" then
      let? txs := aHL 2 in let? m := aZ 0 in let? thr := aN 1 in
      Some (s_outcome s_big_list (bind (construct txs m thr) (deconstruct mock_pfb_decoder)))
    else if is_str op "deconstruct" then
      let? shs := aHL 0 in Some (s_outcome s_big_list (deconstruct mock_pfb_decoder shs))
    else if is_str op "wrappedpfbs" then let? shs := aHL 0 in Some (s_outcome s_big_list (wrapped_pfbs shs))
    else if is_str op "txrange" then
      let? txs := aHL 3 in let? i := aZ 2 in let? m := aZ 0 in let? thr := aN 1 in
      Some (s_outcome s_zrange (tx_share_range txs i m thr))
    else if is_str op "blobrange" then
      let? txs := aHL 4 in let? p := aZ 2 in let? j := aZ 3 in let? m := aZ 0 in let? thr := aN 1 in
      Some (s_outcome s_range (blob_share_range txs p j m thr))
    else if is_str op "builderops" then
      let? m := aZ 0 in let? thr := aN 1 in let? s := arg 2 in builder_ops m thr (split_list s)
    else if is_str op "nsrange" then
      let? shs := aHL 1 in let? ns := aH 0 in Some (s_range (get_share_range_for_namespace shs ns))
    else if is_str op "parseshares" then
      let? shs := aHL 1 in let? fl := aFlag 0 in Some (s_outcome (s_list s_sequence) (parse_shares shs fl))
    else if is_str op "sqparseshares" then
      let? txs := aHL 3 in let? m := aZ 1 in let? thr := aN 2 in let? fl := aFlag 0 in
      Some (s_outcome (s_list s_sequence) (bind (construct txs m thr) (fun sq => parse_shares sq fl)))
    else None.

  Definition c05_blob (i_ns i_ver i_signer i_data : nat) : option (outcome blob) :=
    let? ns := aH i_ns in let? v := aN i_ver in let? sg := aSigner i_signer in let? d := aH i_data in
    Some (new_blob ns d v sg).

  Definition run_c05_c17 (op : str) : option shows :=
    if is_str op "sha256" then let? x := aH 0 in Some (s_hex (sha256 x))
    else if is_str op "subtreeroots" then
      let? b := c05_blob 0 1 2 3 in let? thr := aN 4 in
      Some (s_outcome (s_list s_hex) (bind b (fun b => subtree_roots_sha b thr)))
    else if is_str op "commitment" then
      let? b := c05_blob 0 1 2 3 in let? thr := aN 4 in
      Some (s_obytes (bind b (fun b => commitment_sha b thr)))
    else if is_str op "merkleroot" then let? l := aHL 0 in Some (s_hex (merkle_root sha256 l))
    else if is_str op "rownode" then
      let? row := aHL 0 in let? st := aN 1 in let? len := aN 2 in Some (c05_rownode row st len)
    else if is_str op "memparseblobs" then
      let? arena := aH 0 in let? s := arg 1 in let? views := c17_views s in
      let '(d, res, _) := mem_parse_blobs_run true arena views in
      Some (c17_diff d +> s_chr ";"%char +> s_outcome (s_list s_blob) res)
    else if is_str op "memparseblobslegacy" then
      let? arena := aH 0 in let? s := arg 1 in let? views := c17_views s in
      let '(d, res, _) := mem_parse_blobs_run false arena views in
      Some (c17_diff d +> s_chr ";"%char +> s_outcome (s_list s_blob) res)
    else if is_str op "memparsetxs" then
      let? arena := aH 0 in let? s := arg 1 in let? views := c17_views s in
      let '(d, res, _) := mem_parse_txs_run arena views in
      Some (c17_diff d +> s_chr ";"%char +> s_outcome (s_list s_hex) res)
    else None.

  (* helpers: the small public helpers (Model/Helpers.v) *)
  Definition s_range_state (r : range) : shows :=
    s_zrange r +> s_chr "/"%char +> s_bool (range_is_empty r).
  Definition run_helpers (op : str) : option shows :=
    if is_str op "sortblobs" then
      let? s := arg 0 in let? bl := blob_list s in Some (s_list s_blob (sort_blobs bl))
    else if is_str op "blobcmp" then
      let? s := arg 0 in let? x := blob_of_string s in let? t := arg 1 in let? y := blob_of_string t in
      Some (s_Z (blob_compare x y))
    else if is_str op "blobv0" then
      let? ns := aH 0 in let? d := aH 1 in Some (s_outcome s_blob (new_v0_blob ns d))
    else if is_str op "blobv1" then
      let? ns := aH 0 in let? d := aH 1 in let? sg := aSigner 2 in Some (s_outcome s_blob (new_v1_blob ns d sg))
    else if is_str op "blobempty" then
      let? s := arg 0 in let? b := blob_of_string s in
      Some (s_bool (blob_is_empty b) +> s_chr ":"%char +> s_N (blob_data_len b))
    else if is_str op "commitments" then
      let? s := arg 0 in let? bl := blob_list s in let? thr := aN 1 in
      Some (s_outcome (s_list s_hex) (commitments_sha bl thr))
    else if is_str op "parseinfo" then
      let? x := aN 0 in
      Some (s_outcome (fun i => s_N (b2n i) +> s_chr ":"%char +> s_N (info_version i) +> s_chr ":"%char
                                +> s_bool (info_start i))
                      (parse_info_byte (n2b x)))
    else if is_str op "range" then
      let? s := aZ 0 in let? e := aZ 1 in let? v := aZ 2 in
      let r := new_range s e in
      Some (s_range_state empty_range +> s_chr " "%char +> s_range_state r +> s_chr " "%char
            +> s_range_state (range_add r v))
    else if is_str op "nsrepeat" then
      let? ns := aH 0 in let? k := aZ 1 in Some (s_outcome (s_list s_hex) (ns_repeat ns k))
    else if is_str op "nsempty" then let? ns := aH 0 in Some (s_bool (ns_is_empty ns))
    else if is_str op "frombytes" then
      let? l := aHL 0 in Some (s_outcome (fun shs => s_big_list (to_bytes shs)) (from_bytes l))
    else if is_str op "sharebytes" then
      let? d := aH 0 in Some (s_outcome s_hex (bind (new_share d) (fun s => Ok (share_to_bytes s))))
    else if is_str op "sqequals" then
      let? x := aHL 0 in let? y := aHL 1 in Some (s_bool (square_equals x y))
    else if is_str op "sqsizeof" then let? x := aHL 0 in Some (s_N (square_size_of x))
    else if is_str op "sparsecount" then
      let? s := arg 0 in let? items := sparse_items s in Some (s_outcome s_N (sparse_count_after items))
    else None.
End Run.

Definition arith_ops : list str :=
  ["rup"; "rdown"; "ispow2"; "minsq"; "sqsize"; "stw"; "rumo"; "nsi"; "mmr"; "bsu"; "cneed"; "sneed";
   "cavail"; "savail"; "delimlen"; "counter"]%string.
Definition ns_ops : list str := ["nscmp"; "nsinfo"; "nsnew"; "nsfrom"; "nsv0"; "nsadd"]%string.
Definition share_ops : list str :=
  ["blobnew"; "blobshares"; "pad"; "shinfo"; "sparse"; "sparserr"; "specblob"; "specpad"; "speccompact";
   "speccompactix"; "compactrt"; "subranges"; "parseblobs"; "compact"; "parsetxs"; "parsedelim"]%string.
Definition proto_ops : list str :=
  ["blobmarshal"; "blobunmarshal"; "btxmarshal"; "btxunmarshal"; "iwmarshal"; "iwunmarshal";
   "blobfromproto"]%string.
Definition square_ops : list str :=
  ["build"; "construct"; "specbuild"; "specconstruct"; "condecon"; "deconstruct"; "wrappedpfbs"; "txrange";
   "blobrange"; "builderops"; "nsrange"; "parseshares"; "sqparseshares"]%string.
Definition c05_c17_ops : list str :=
  ["sha256"; "subtreeroots"; "commitment"; "merkleroot"; "rownode"; "memparseblobs"; "memparseblobslegacy";
   "memparsetxs"]%string.
Definition helpers_ops : list str :=
  ["sortblobs"; "blobcmp"; "blobv0"; "blobv1"; "blobempty"; "commitments"; "parseinfo"; "range"; "nsrepeat";
   "nsempty"; "frombytes"; "sharebytes"; "sqequals"; "sqsizeof"; "sparsecount"]%string.
Definition supported_ops : list str :=
  "consts"%string :: arith_ops ++ ns_ops ++ share_ops ++ proto_ops ++ square_ops ++ c05_c17_ops ++ helpers_ops.

Definition mem_str (s : str) (l : list str) : bool := existsb (is_str s) l.

(* the answer of the model to one request line [id TAB op TAB args...] (without the id) *)
Definition run_op (op : str) (args : list str) : str :=
  if is_str op "consts" then render consts
  else if mem_str op arith_ops then fin (run_arith args op)
  else if mem_str op ns_ops then fin (run_ns args op)
  else if mem_str op share_ops then fin (run_share args op)
  else if mem_str op proto_ops then fin (run_proto args op)
  else if mem_str op square_ops then fin (run_square args op)
  else if mem_str op c05_c17_ops then fin (run_c05_c17 args op)
  else if mem_str op helpers_ops then fin (run_helpers args op)
  else unsupported.

Definition run_case (c : str * str * list str) : str := run_op (snd (fst c)) (snd c).

(* Transport only.  Coq interprets and prints a [String.string] literal of n characters through the
   conversion functions of its String Notation, which costs ~70 microseconds per character for the
   literal and as much for printing the answer.  [bstr] is a list of bytes with its own String
   Notation whose conversion functions are the constructor and the projection, about three times
   cheaper; bin/vmcross writes the requests as [bstr] literals, they are turned into [String.string]
   by the standard [string_of_list_byte] inside the same vm_compute, and the answer goes back through
   [list_byte_of_string]. *)
Inductive bstr : Set := BS (l : list Byte.byte).
Definition bstr_bytes (b : bstr) : list Byte.byte := match b with BS l => l end.
Declare Scope bstr_scope.
Delimit Scope bstr_scope with bstr.
Bind Scope bstr_scope with bstr.
String Notation bstr BS bstr_bytes : bstr_scope.
Definition to_str (b : bstr) : str := string_of_list_byte (bstr_bytes b).
Definition of_str (s : str) : bstr := BS (list_byte_of_string s).
Definition run_case_b (c : bstr * bstr * list bstr) : bstr :=
  of_str (run_op (to_str (snd (fst c))) (map to_str (snd c))).
