(* C20 (helpers) - share.Range (NewRange, EmptyRange, IsEmpty, Add), Square.Size, Square.Equals.
   Statements only. *)
From Coq Require Import List NArith ZArith Bool.
From GS.Model Require Import Base Namespace ShareFmt Blob Arith Builder Square Helpers.
From GS.Proofs Require Import HelpersProofs.
Import ListNotations.

(* IsEmpty holds exactly of EmptyRange *)
Theorem C20h_range_is_empty : forall r, range_is_empty r = true <-> r = empty_range.
Proof. exact range_is_empty_spec. Qed.
Print Assumptions C20h_range_is_empty.

Theorem C20h_new_range : forall s e, fst (new_range s e) = s /\ snd (new_range s e) = e.
Proof. exact new_range_fields. Qed.
Print Assumptions C20h_new_range.

(* Add shifts both ends; exact as long as the results are Go ints *)
Theorem C20h_range_add_exact : forall r v, in_int (fst r + v) -> in_int (snd r + v) ->
  range_add r v = (fst r + v, snd r + v)%Z.
Proof. exact range_add_exact. Qed.
Print Assumptions C20h_range_add_exact.

Theorem C20h_range_add_zero : forall r, in_int (fst r) -> in_int (snd r) -> range_add r 0 = r.
Proof. exact range_add_zero. Qed.
Print Assumptions C20h_range_add_zero.

(* two additions are the addition of the sum - also across a wrap-around *)
Theorem C20h_range_add_add : forall r a b, range_add (range_add r a) b = range_add r (a + b).
Proof. exact range_add_add. Qed.
Print Assumptions C20h_range_add_add.

Theorem C20h_range_add_undo : forall r v,
  in_int (fst r) -> in_int (snd r) -> range_add (range_add r v) (- v) = r.
Proof. exact range_add_undo. Qed.
Print Assumptions C20h_range_add_undo.

Theorem C20h_range_add_width : forall r v, in_int (fst r + v) -> in_int (snd r + v) ->
  (snd (range_add r v) - fst (range_add r v) = snd r - fst r)%Z.
Proof. exact range_add_width. Qed.
Print Assumptions C20h_range_add_width.

Theorem C20h_range_add_in_int : forall r v,
  in_int (fst (range_add r v)) /\ in_int (snd (range_add r v)).
Proof. exact range_add_in_int. Qed.
Print Assumptions C20h_range_add_in_int.

(* Square.Equals is equality of the share lists, byte for byte; it is the comparison behind
   Square.IsEmpty *)
Theorem C20h_square_equals : forall a b, square_equals a b = true <-> a = b.
Proof. exact square_equals_spec. Qed.
Print Assumptions C20h_square_equals.

Theorem C20h_square_equals_sym : forall a b, square_equals a b = square_equals b a.
Proof. exact square_equals_sym. Qed.
Print Assumptions C20h_square_equals_sym.

Theorem C20h_square_is_empty_equals : forall s e,
  empty_square = Ok e -> square_is_empty s = square_equals s e.
Proof. exact square_is_empty_equals. Qed.
Print Assumptions C20h_square_is_empty_equals.

(* Square.Size is Size of the number of shares *)
Theorem C20h_square_size_of : forall s, square_size_of s = square_size (lenN s).
Proof. exact square_size_of_spec. Qed.
Print Assumptions C20h_square_size_of.

Example C20h_range_example :
  range_add (new_range 3 7) 5 = (8, 12)%Z /\ range_is_empty (new_range 0 0) = true /\
  range_is_empty (new_range 0 1) = false /\ range_is_empty (range_add (new_range 2 2) (-2)) = true /\
  in_int (3 + 5) /\ in_int (7 + 5) /\
  range_add (new_range 0 9223372036854775807) 1 = (1, -9223372036854775808)%Z.
Proof. vm_compute. repeat split; congruence. Qed.
Example C20h_square_example :
  square_equals [hp_share Byte.x01; hp_share Byte.x02] [hp_share Byte.x01; hp_share Byte.x02] = true /\
  square_equals [hp_share Byte.x01; hp_share Byte.x02] [hp_share Byte.x01; hp_share Byte.x03] = false /\
  square_equals [hp_share Byte.x01] [hp_share Byte.x01; hp_share Byte.x01] = false /\
  square_size_of (repeat (hp_share Byte.x01) 5) = 4%N /\ square_size_of [] = 1%N /\
  square_size_of (repeat (hp_share Byte.x01) 16) = 4%N.
Proof. vm_compute. repeat split. Qed.
