(* C07, part 3: the refinement theorems.

     construct raws max thr = layout_construct raws max thr
     build     raws max thr = layout_build     raws max thr

   for every list of raw transactions, every maximum square size up to 1024 (whether or
   not it is a valid one: an invalid one is an error on both sides) and every subtree root
   threshold >= 1, provided every blob transaction of the list that decodes carries blobs
   as NewBlob / ValidateForBlob accept them, with data and signer below 4 GiB together.
   The equality is an equality of outcomes: the error cases (undecodable blob transaction,
   ordinary transaction after a blob transaction, list does not fit, bad maximum) coincide. *)
From Coq Require Import List Arith NArith ZArith Lia Bool.
From Coq Require Import ZifyN ZifyNat ZifyBool.
From GS.Model Require Import Base Varint Namespace ShareFmt Blob Sparse Compact Counter Arith Proto Builder.
From GS.Spec Require Import ShareSpec CompactSpec LayoutSpec.
From GS.Proofs Require Import BaseLemmas SparseProofs ArithProofs AccountingProofs BlobLayoutProofs LayoutShapeProofs
  RefinementProofs1 RefinementProofs2.
Import ListNotations.
Open Scope N_scope.

Lemma max_side_small (max : Z) : (max <= 1024)%Z -> Z.to_N max * Z.to_N max < 2097152.
Proof. intros H. assert (Z.to_N max <= 1024) by lia. nia. Qed.

(* (A) Construct *)
Theorem construct_eq_layout raws max thr : 1 <= thr -> (max <= 1024)%Z -> c07_raws_ok raws ->
  construct raws max thr = layout_construct raws max thr.
Proof.
  intros Ht Hmax Hraws. unfold construct, new_builder_txs, layout_construct, new_builder_ok.
  destruct ((0 <? max)%Z && is_pow2 max); cbn [negb]; [|reflexivity].
  pose proof (construct_loop_spec (Z.to_N max) thr Ht raws (empty_builder (Z.to_N max) thr) false [] []
                (corr_empty _ _) Hraws) as H.
  destruct (split_ordered false raws [] []) as [[normals btxs]|]; [|rewrite H; reflexivity].
  destruct (estimate thr normals btxs <=? Z.to_N max * Z.to_N max).
  - destruct H as (b' & -> & C). cbn [bind].
    destruct (export_corr (Z.to_N max) thr b' normals btxs Ht (max_side_small max Hmax) C) as (b2 & ->).
    reflexivity.
  - rewrite H. reflexivity.
Qed.

(* (B) Build: the square and the kept transactions *)
Theorem build_eq_layout raws max thr : 1 <= thr -> (max <= 1024)%Z -> c07_raws_ok raws ->
  build raws max thr = layout_build raws max thr.
Proof.
  intros Ht Hmax Hraws. unfold build, layout_build, new_builder_ok.
  destruct ((0 <? max)%Z && is_pow2 max); cbn [negb]; [|reflexivity].
  pose proof (build_loop_spec (Z.to_N max) thr Ht raws (empty_builder (Z.to_N max) thr) [] [] [] []
                (corr_empty _ _) Hraws) as H.
  destruct (keep (Z.to_N max * Z.to_N max) thr raws [] [] [] []) as [[[normals btxs] kept]|];
    [|rewrite H; reflexivity].
  destruct H as (b' & kn & kb & -> & -> & C). cbn [bind].
  destruct (export_corr (Z.to_N max) thr b' normals btxs Ht (max_side_small max Hmax) C) as (b2 & ->).
  reflexivity.
Qed.

(* the statements with the hypothesis on the blobs spelled out *)
Corollary construct_refines_layout : forall raws max thr, 1 <= thr -> (max <= 1024)%Z ->
  (forall r t b, In r raws -> unmarshal_blob_tx r = UbtOk t -> In b (btx_blobs t) ->
     blob_ok b /\ validate_for_blob (b_ns b) = true /\ lenN (b_data b) + signer_len b < 4294967296) ->
  construct raws max thr = layout_construct raws max thr.
Proof.
  intros raws max thr Ht Hmax H. apply construct_eq_layout; try assumption.
  apply Forall_forall. intros r Hr t Hu. apply Forall_forall. intros b Hb.
  destruct (H r t b Hr Hu Hb) as (H1 & H2 & H3). split; [split|]; assumption.
Qed.

Corollary build_refines_layout : forall raws max thr, 1 <= thr -> (max <= 1024)%Z ->
  (forall r t b, In r raws -> unmarshal_blob_tx r = UbtOk t -> In b (btx_blobs t) ->
     blob_ok b /\ validate_for_blob (b_ns b) = true /\ lenN (b_data b) + signer_len b < 4294967296) ->
  build raws max thr = layout_build raws max thr.
Proof.
  intros raws max thr Ht Hmax H. apply build_eq_layout; try assumption.
  apply Forall_forall. intros r Hr t Hu. apply Forall_forall. intros b Hb.
  destruct (H r t b Hr Hu Hb) as (H1 & H2 & H3). split; [split|]; assumption.
Qed.

(* ================================================================== *)
(* Non-vacuity: a concrete mixed transaction list                      *)
(* ================================================================== *)

Definition raw_of (o : outcome bytes) : bytes := match o with Ok r => r | _ => [] end.
(* two ordinary transactions (ex_normals), then two blob transactions made by MarshalBlobTx:
   one blob of 600 bytes (2 shares); two blobs of 2000 and 600 bytes (5 and 2 shares) given
   in descending namespace order *)
Definition ex_btx1 : blob_tx := mk_btx [Byte.x0a] [ex_blob_a].
Definition ex_btx2 : blob_tx := mk_btx (repeat Byte.x0b 50) [ex_blob_b; ex_blob_a].
Definition ex_raw1 : bytes := raw_of (marshal_blob_tx (btx_tx ex_btx1) (btx_blobs ex_btx1)).
Definition ex_raw2 : bytes := raw_of (marshal_blob_tx (btx_tx ex_btx2) (btx_blobs ex_btx2)).
Definition ex_raws : list bytes := ex_normals ++ [ex_raw1; ex_raw2].
(* an ordinary transaction after a blob transaction *)
Definition ex_raws_misordered : list bytes := [ex_raw1; [Byte.x01; Byte.x02; Byte.x03]].

Lemma ex_raws_classified :
  map unmarshal_blob_tx ex_raws = [UbtNot; UbtNot; UbtOk ex_btx1; UbtOk ex_btx2].
Proof. vm_compute. reflexivity. Qed.

Lemma ex_blobs_c07 : c07_blob_ok ex_blob_a /\ c07_blob_ok ex_blob_b.
Proof.
  split; (split; [|vm_compute; reflexivity]).
  - apply ex_blob_ok; [discriminate|vm_compute; reflexivity|left; reflexivity].
  - apply ex_blob_ok; [discriminate|vm_compute; reflexivity|right; left; reflexivity].
Qed.

Example ex_raws_ok : c07_raws_ok ex_raws /\ c07_raws_ok ex_raws_misordered.
Proof.
  destruct ex_blobs_c07 as [Ha Hb].
  assert (H1 : c07_raw_ok ex_raw1).
  { intros t Hu. assert (E : unmarshal_blob_tx ex_raw1 = UbtOk ex_btx1) by (vm_compute; reflexivity).
    rewrite E in Hu. injection Hu as <-. constructor; [exact Ha|constructor]. }
  assert (H2 : c07_raw_ok ex_raw2).
  { intros t Hu. assert (E : unmarshal_blob_tx ex_raw2 = UbtOk ex_btx2) by (vm_compute; reflexivity).
    rewrite E in Hu. injection Hu as <-. constructor; [exact Hb|]. constructor; [exact Ha|constructor]. }
  assert (Hn : forall r, In r ex_normals \/ r = [Byte.x01; Byte.x02; Byte.x03] -> c07_raw_ok r).
  { intros r Hr t Hu. destruct Hr as [[<-|[<-|[]]]| ->]; vm_compute in Hu; discriminate. }
  split.
  - unfold ex_raws. apply Forall_app. split.
    + apply Forall_forall. intros r Hr. apply Hn. left. exact Hr.
    + constructor; [exact H1|]. constructor; [exact H2|constructor].
  - constructor; [exact H1|]. constructor; [apply Hn; right; reflexivity|constructor].
Qed.

(* maximum 4: everything fits (estimate 11); maximum 2: the second blob transaction does not *)
Example ex_refinement_instances :
  construct ex_raws 4 1 = layout_construct ex_raws 4 1 /\
  construct ex_raws 4 64 = layout_construct ex_raws 4 64 /\
  build ex_raws 2 64 = layout_build ex_raws 2 64 /\
  construct ex_raws 2 64 = layout_construct ex_raws 2 64 /\
  construct ex_raws_misordered 4 64 = layout_construct ex_raws_misordered 4 64.
Proof.
  destruct ex_raws_ok as [H1 H2].
  repeat split; first [apply construct_eq_layout|apply build_eq_layout]; try assumption; lia.
Qed.
