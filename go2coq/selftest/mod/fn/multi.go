package fn

import (
	"errors"
	"fmt"

	"t/sub"
)

// ---- calls, multi-result calls with _, error results

func DivMod(a, b int) (int, int) { return a / b, a % b }
func UseDivMod(a, b int) int {
	q, _ := DivMod(a, b)
	_, r := DivMod(a, b+1)
	var s, t int
	s, t = DivMod(q+r, 3)
	return q*r + s - t
}
func SafeDiv(a, b int) (int, error) {
	if b == 0 {
		return 0, fmt.Errorf("division of %d by zero", 1)
	}
	if a == 0 {
		return 0, errors.New("zero")
	}
	return a / b, nil
}
func ErrArgLocal(a int) error {
	if a < 0 {
		return fmt.Errorf("negative: %d", a) // a local variable as an argument has no effect
	}
	return nil
}
func UseSafeDiv(a, b int) (int, bool) {
	q, err := SafeDiv(a, b)
	if err != nil {
		return -1, false
	}
	if err := ErrArgLocal(q); err != nil {
		return -2, err == nil
	}
	var e2 error
	if e2 == nil {
		q++
	}
	_, e2 = SafeDiv(q, a)
	return q, e2 == nil
}
func Propagate(a, b int) (r int, err error) {
	r, err = SafeDiv(a, b)
	if err != nil {
		return
	}
	x, err := SafeDiv(b, r) // redeclares err in the same scope
	return x + r, err
}
func Fact(n int) int {
	n &= 15
	if n <= 1 {
		return 1
	}
	return n * Fact(n-1)
}
func Fib(n uint8) uint64 {
	n %= 12
	if n < 2 {
		return uint64(n)
	}
	return Fib(n-1) + Fib(n-2)
}
func IsEven(n uint8) bool {
	if n == 0 {
		return true
	}
	return IsOdd(n - 1)
}
func IsOdd(n uint8) bool {
	if n == 0 {
		return false
	}
	return IsEven(n - 1)
}
func CallArgsOrder(a, b int) int { return SubI(AddI(a, b), MulI(a, SubI(b, 1))) }
func CallPanics(a, b int) int {
	if a > 100 {
		return 0
	}
	return QuoI(a, b) + 1
}

// a function of another package of the module (selected too)
func CrossPackage(x int, y uint32) int { return sub.Twice(x) + int(sub.Low(y)) }
func NoResult(x int)                   { x++ }
func NoParams() (int, uint8)           { return kB, kU8 + 50 }
func InitCalls(a, b int) int {
	t := 0
	if q, r := DivMod(a, b); q > r {
		t = q - r
	} else if _, r2 := DivMod(r, 7); r2 != 0 {
		t = r2
	}
	for q, r := DivMod(t, 5); q > 0 && r < 9; r++ {
		q /= 2
		t += q
	}
	switch q, _ := DivMod(t, 3); {
	case q > 100:
		return 100
	default:
		return q
	}
}

// return f(...) forwarding all the results of a call
func RetCall(a, b int) (int, int) { return DivMod(a, b) }
func RetCallErr(a, b int) (q int, err error) {
	if a == b {
		return
	}
	return SafeDiv(a, b)
}
func RetCallNested(a, b int) (int, error) {
	if a > 0 {
		return RetCallErr(a-1, b)
	}
	return RetCallErr(b, a)
}
