(* C15 - Subtree-width, mountain-range and alignment arithmetic obey their laws.
   Statements only; every proof is `exact` of a lemma in Proofs/ArithProofs.v.
   All statements are for unbounded arguments (N / Z). *)
From Coq Require Import List NArith ZArith.
From GS.Model Require Import Base Arith.
From GS.Proofs Require Import ArithProofs.
Open Scope N_scope.

(* the subtree width is min(least power of two w with ceil(n/w) <= t, minimal side),
   a power of two, and never larger than the minimal square side *)
Theorem C15_subtree_width : forall n t, 1 <= t ->
  subtree_width n t = N.min (least_width n t) (blob_min_square_size n) /\
  pow2 (subtree_width n t) /\
  subtree_width n t <= blob_min_square_size n.
Proof. exact subtree_width_spec. Qed.
Print Assumptions C15_subtree_width.

(* least_width really is the least power of two w with ceil(n/w) <= t *)
Theorem C15_least_width : forall n t, 1 <= t ->
  pow2 (least_width n t) /\ ceil_div n (least_width n t) <= t /\
  (forall w, pow2 w -> ceil_div n w <= t -> least_width n t <= w).
Proof. exact least_width_spec. Qed.
Print Assumptions C15_least_width.

(* the minimal side is the least power of two whose square covers n *)
Theorem C15_min_square_size : forall n,
  pow2 (blob_min_square_size n) /\
  n <= blob_min_square_size n * blob_min_square_size n /\
  (forall w, pow2 w -> n <= w * w -> blob_min_square_size n <= w).
Proof. exact blob_min_square_size_spec. Qed.
Print Assumptions C15_min_square_size.

(* mountain range: non-increasing powers of two, none above the width, summing to n *)
Theorem C15_mountain_range : forall total max, pow2 max ->
  sumN (mmr_sizes total max) = total /\
  Forall pow2 (mmr_sizes total max) /\
  Forall (fun p => p <= max) (mmr_sizes total max) /\
  desc (mmr_sizes total max).
Proof. exact mmr_sizes_spec. Qed.
Print Assumptions C15_mountain_range.

(* next index: the least multiple of the subtree width at or after the cursor *)
Theorem C15_next_share_index : forall c len t, 1 <= t ->
  let w := subtree_width len t in
  let r := next_share_index c len t in
  r mod w = 0 /\ c <= r /\ r < c + w.
Proof. exact next_share_index_spec. Qed.
Print Assumptions C15_next_share_index.

Theorem C15_round_up_by_multiple_least : forall c v m, 1 <= v -> m mod v = 0 -> c <= m ->
  round_up_by_multiple_of c v <= m.
Proof. exact round_up_by_multiple_of_least. Qed.
Print Assumptions C15_round_up_by_multiple_least.

(* rounding helpers *)
Theorem C15_round_up_pow2 : forall x,
  exists k, round_up_pow2 x = 2 ^ k /\ x <= 2 ^ k /\ (k = 0 \/ 2 ^ (k - 1) < x).
Proof. exact round_up_pow2_spec. Qed.
Print Assumptions C15_round_up_pow2.

Theorem C15_round_down_pow2 : forall x : Z,
  ((x <= 0)%Z -> round_down_pow2 x = Err) /\
  ((0 < x)%Z -> exists r, round_down_pow2 x = Ok r /\ pow2 r /\ r <= Z.to_N x /\ Z.to_N x < 2 * r).
Proof. exact round_down_pow2_spec. Qed.
Print Assumptions C15_round_down_pow2.

Theorem C15_is_pow2 : forall x : Z, is_pow2 x = true <-> exists k : Z, (0 <= k /\ x = 2 ^ k)%Z.
Proof. exact is_pow2_spec. Qed.
Print Assumptions C15_is_pow2.
