(* share.Range methods of the regenerated program against Model/Helpers.v *)
From Coq Require Import Lia ZArith NArith List String ZifyN ZifyNat ZifyBool.
From GS.Model Require Import Base Varint ShareFmt Counter Arith Builder Helpers GoLite.
From GS.Proofs Require Import BaseLemmas VarintProofs HelpersProofs GoLiteLemmas.
From GS.Gen Require Import Generated.
From GS.GenProofs Require Import GenLink.
Open Scope string_scope. Open Scope Z_scope.
From GS.GenProofs Require Import GenMoreBase.

(* ---------- share.Range.IsEmpty / Add ---------- *)

(* the model's Go-int wrap-around is GoLite's wrap at int64 *)
Lemma int_wrap_is_wrap z : int_wrap z = wrap I64 z.
Proof. reflexivity. Qed.

Lemma range_is_empty_gen fuel s e : (1 <= fuel)%nat ->
  gen_call fuel "share.Range.IsEmpty" I64 [s; e] = Val [b2z (range_is_empty (s, e))].
Proof.
  intros Hf. destruct fuel as [|fuel]; [lia|].
  unfold gen_call. rewrite callf_S. cbn. unfold eval_cmp, range_is_empty. cbn [fst snd].
  destruct (s =? 0); cbn; kz; [|reflexivity].
  destruct (e =? 0); reflexivity.
Qed.

(* every int64 (in fact every integer): no overflow condition, both sides wrap the same way *)
Lemma range_add_gen fuel s e v : (1 <= fuel)%nat ->
  gen_call fuel "share.Range.Add" I64 [s; e; v] =
  Val [fst (range_add (s, e) v); snd (range_add (s, e) v)].
Proof.
  intros Hf. destruct fuel as [|fuel]; [lia|].
  unfold gen_call. rewrite callf_S. cbn. reflexivity.
Qed.

(* ... and the results are int64 values again *)
Lemma range_add_in_i64 s e v :
  in_i64 (fst (range_add (s, e) v)) /\ in_i64 (snd (range_add (s, e) v)).
Proof.
  unfold range_add, in_i64. cbn [fst snd].
  pose proof (int_wrap_in_int (s + v)) as H1. pose proof (int_wrap_in_int (e + v)) as H2.
  unfold in_int in *. change (2^63) with 9223372036854775808. lia.
Qed.

