(* inclusion/blob_share_commitment_rules.go, MerkleMountainRangeSizes, square.Size *)
From GS.Model Require Import Base.
Open Scope N_scope.

(* RoundUpPowerOfTwo: `result := 1; for result < input { result <<= 1 }`.
   Fuel: the number of binary digits of the input plus one. *)
Fixpoint rup_loop (fuel : nat) (result input : N) : N :=
  match fuel with
  | O => result
  | S f => if result <? input then rup_loop f (2 * result) input else result
  end.
Definition round_up_pow2 (input : N) : N := rup_loop (S (N.to_nat (N.size input))) 1 input.

(* RoundDownPowerOfTwo: error iff input <= 0 (Z argument because Go's is signed) *)
Definition round_down_pow2 (input : Z) : outcome N :=
  if (input <=? 0)%Z then Err else
  let i := Z.to_N input in
  let up := round_up_pow2 i in
  if up =? i then Ok up else Ok (up / 2).

(* IsPowerOfTwo: input&(input-1) == 0 && input != 0, on a signed int *)
Definition is_pow2 (input : Z) : bool :=
  (Z.eqb (Z.land input (input - 1)) 0 && negb (Z.eqb input 0))%Z.

(* exact integer ceil(sqrt n); Go computes it in float64 (see trusted base) *)
Definition ceil_sqrt (n : N) : N :=
  let r := N.sqrt n in if r * r =? n then r else r + 1.

(* BlobMinSquareSize, square.Size *)
Definition blob_min_square_size (share_count : N) : N := round_up_pow2 (ceil_sqrt share_count).
Definition square_size (len : N) : N := round_up_pow2 (ceil_sqrt len).

(* SubTreeWidth(shareCount, subtreeRootThreshold), threshold >= 1 *)
Definition subtree_width (share_count threshold : N) : N :=
  let s := share_count / threshold + (if share_count mod threshold =? 0 then 0 else 1) in
  N.min (round_up_pow2 s) (blob_min_square_size share_count).

(* RoundUpByMultipleOf(cursor, v), v >= 1 *)
Definition round_up_by_multiple_of (cursor v : N) : N :=
  if cursor mod v =? 0 then cursor else (cursor / v + 1) * v.

(* NextShareIndex *)
Definition next_share_index (cursor blob_share_len threshold : N) : N :=
  round_up_by_multiple_of cursor (subtree_width blob_share_len threshold).

(* MerkleMountainRangeSizes(totalSize, maxTreeSize), maxTreeSize >= 1:
   as long as total >= max emit max; then the binary digits of what is left,
   most significant first (RoundDownPowerOfTwo of the rest each time). *)
Fixpoint mmr_tail (fuel : nat) (total : N) : list N :=
  match fuel with
  | O => []
  | S f =>
    if total =? 0 then [] else
    let p := 2 ^ N.log2 total in p :: mmr_tail f (total - p)
  end.
Definition mmr_sizes (total max : N) : list N :=
  repeat max (N.to_nat (total / max)) ++ mmr_tail (N.to_nat (N.size max)) (total mod max).

(* BlobSharesUsedNonInteractiveDefaults(cursor, threshold, lens...) *)
Fixpoint blob_shares_used_go (cursor threshold : N) (lens : list N) : N * list N :=
  match lens with
  | [] => (cursor, [])
  | l :: tl =>
    let c := next_share_index cursor l threshold in
    let '(fin, idx) := blob_shares_used_go (c + l) threshold tl in
    (fin, u32 c :: idx)
  end.
Definition blob_shares_used (cursor threshold : N) (lens : list N) : N * list N :=
  let '(fin, idx) := blob_shares_used_go cursor threshold lens in (fin - cursor, idx).
