(* Basic lemmas about bytes, big-endian words, padding and chunking. *)
From Coq Require Import List Arith NArith ZArith Lia Bool.
From Coq Require Import ZifyN ZifyNat ZifyBool.
From GS.Model Require Import Base Varint Namespace ShareFmt.
From GS.Spec Require Import ShareSpec.
Import ListNotations.

Ltac Zify.zify_post_hook ::= Z.div_mod_to_equations.

Open Scope nat_scope.

Lemma b2n_lt b : (b2n b < 256)%N.
Proof. unfold b2n. pose proof (Byte.to_N_bounded b). lia. Qed.

Lemma b2n_n2b n : (n < 256)%N -> b2n (n2b n) = n.
Proof.
  intros H. unfold n2b, b2n. rewrite N.mod_small by lia.
  destruct (Byte.of_N n) eqn:E.
  - apply Byte.to_of_N in E. exact E.
  - apply Byte.of_N_None_iff in E. lia.
Qed.

Lemma b2n_n2b_mod n : b2n (n2b n) = (n mod 256)%N.
Proof.
  unfold n2b, b2n. pose proof (N.mod_lt n 256).
  destruct (Byte.of_N (n mod 256)) eqn:E.
  - apply Byte.to_of_N in E. exact E.
  - apply Byte.of_N_None_iff in E. lia.
Qed.

Lemma n2b_b2n b : n2b (b2n b) = b.
Proof.
  unfold n2b, b2n. rewrite N.mod_small by (pose proof (Byte.to_N_bounded b); lia).
  rewrite Byte.of_to_N. reflexivity.
Qed.

Lemma b2n_inj a b : b2n a = b2n b -> a = b.
Proof. intros H. rewrite <- (n2b_b2n a), <- (n2b_b2n b), H. reflexivity. Qed.

Lemma byte_eqb_eq a b : byte_eqb a b = true <-> a = b.
Proof. unfold byte_eqb. apply Byte.byte_dec_bl || (split; [apply Byte.byte_dec_bl|apply Byte.byte_dec_lb]). Qed.

Lemma byte_eqb_refl a : byte_eqb a a = true.
Proof. apply byte_eqb_eq. reflexivity. Qed.

Lemma bytes_eqb_eq a b : bytes_eqb a b = true <-> a = b.
Proof.
  revert b. induction a as [|x a IH]; intros [|y b]; cbn [bytes_eqb]; try (split; [discriminate|discriminate]); [tauto|].
  rewrite andb_true_iff, byte_eqb_eq, IH. split; [intros [-> ->]; reflexivity|intros H; inversion H; auto].
Qed.

Lemma bytes_eqb_refl a : bytes_eqb a a = true.
Proof. apply bytes_eqb_eq. reflexivity. Qed.

Lemma bytes_eqb_neq a b : bytes_eqb a b = false <-> a <> b.
Proof.
  split.
  - intros H E. apply bytes_eqb_eq in E. congruence.
  - intros H. destruct (bytes_eqb a b) eqn:E; [apply bytes_eqb_eq in E; contradiction|reflexivity].
Qed.

(* ---- zeros, pad_to ---- *)
Lemma length_zeros n : length (zeros n) = n.
Proof. apply repeat_length. Qed.

Lemma zeros_app a b : zeros a ++ zeros b = zeros (a + b).
Proof. unfold zeros. symmetry. apply repeat_app. Qed.

Lemma zeros_0 : zeros 0 = [].
Proof. reflexivity. Qed.

Lemma length_pad_to n l : length l <= n -> length (pad_to n l) = n.
Proof. intros H. unfold pad_to. rewrite app_length, length_zeros. lia. Qed.

Lemma pad_to_full n l : length l = n -> pad_to n l = l.
Proof. intros H. unfold pad_to. rewrite H, Nat.sub_diag. apply app_nil_r. Qed.

(* ---- lenN, takeN, dropN ---- *)
Lemma lenN_app {A} (a b : list A) : lenN (a ++ b) = (lenN a + lenN b)%N.
Proof. unfold lenN. rewrite app_length. lia. Qed.

Lemma lenN_nil {A} : lenN (@nil A) = 0%N.
Proof. reflexivity. Qed.

Lemma lenN_cons {A} (x : A) l : lenN (x :: l) = (lenN l + 1)%N.
Proof. unfold lenN. cbn [length]. lia. Qed.

(* ---- big-endian 32-bit ---- *)
Lemma length_be32 n : length (be32 n) = 4.
Proof. reflexivity. Qed.

Lemma rd32_be32 n : (n < 4294967296)%N -> rd32 (be32 n) = n.
Proof.
  intros H. unfold rd32, be32. rewrite !b2n_n2b_mod. lia.
Qed.

Lemma rd32_lt l : (rd32 l < 4294967296)%N.
Proof.
  unfold rd32. destruct l as [|a [|b [|c [|d [|e l]]]]]; try lia.
  pose proof (b2n_lt a). pose proof (b2n_lt b). pose proof (b2n_lt c). pose proof (b2n_lt d). lia.
Qed.

Lemma u32_small n : (n < 4294967296)%N -> u32 n = n.
Proof. intros H. unfold u32. apply N.mod_small. exact H. Qed.

(* ---- chunks ---- *)
Lemma chunks_fuel_enough : forall f1 f2 k l, 0 < k -> length l <= f1 -> length l <= f2 ->
  chunks_fuel f1 k l = chunks_fuel f2 k l.
Proof.
  induction f1 as [|f1 IH]; intros f2 k l Hk H1 H2.
  - destruct l; [|cbn in H1; lia]. destruct f2; reflexivity.
  - destruct l as [|x l]; [destruct f2; reflexivity|].
    destruct f2 as [|f2]; [cbn in H2; lia|].
    cbn [chunks_fuel]. f_equal. apply IH; [exact Hk| |]; rewrite skipn_length; cbn [length] in *; lia.
Qed.

Lemma chunks_nil k : chunks k [] = [].
Proof. reflexivity. Qed.

Lemma chunks_cons k l : 0 < k -> l <> [] -> chunks k l = firstn k l :: chunks k (skipn k l).
Proof.
  intros Hk Hl. unfold chunks. destruct l as [|x l]; [congruence|].
  cbn [length chunks_fuel]. f_equal.
  apply chunks_fuel_enough; [exact Hk| |]; rewrite skipn_length; cbn [length]; lia.
Qed.

(* all chunks but the last are full; here: every chunk has at most k bytes and is non-empty *)
Lemma chunks_fuel_bound : forall f k l, 0 < k -> Forall (fun c => 0 < length c <= k) (chunks_fuel f k l).
Proof.
  induction f as [|f IH]; intros k l Hk; [constructor|].
  destruct l as [|x l]; [constructor|]. cbn [chunks_fuel]. constructor; [|apply IH; exact Hk].
  rewrite firstn_length. cbn [length]. lia.
Qed.

Lemma chunks_bound k l : 0 < k -> Forall (fun c => 0 < length c <= k) (chunks k l).
Proof. intros Hk. apply chunks_fuel_bound, Hk. Qed.

(* concatenating the zero-padded chunks gives the data followed by zeros *)
Lemma concat_padded_chunks_fuel : forall f k l, 0 < k -> length l <= f ->
  exists z, concat (map (pad_to k) (chunks_fuel f k l)) = l ++ zeros z /\ z < k.
Proof.
  induction f as [|f IH]; intros k l Hk Hl.
  - destruct l; [|cbn in Hl; lia]. exists 0. split; [reflexivity|exact Hk].
  - destruct l as [|x l]; [exists 0; split; [reflexivity|exact Hk]|].
    cbn [chunks_fuel map concat].
    destruct (IH k (skipn k (x :: l)) Hk) as (z & Hz & Hzk).
    { rewrite skipn_length. cbn [length] in *. lia. }
    rewrite Hz.
    destruct (Nat.le_gt_cases k (length (x :: l))) as [Hge|Hlt].
    + exists z. split; [|exact Hzk].
      rewrite pad_to_full by (rewrite firstn_length; lia).
      rewrite app_assoc, firstn_skipn. reflexivity.
    + exists (k - length (x :: l) + z).
      rewrite (firstn_all2 (x :: l)) by lia. rewrite (skipn_all2 (x :: l)) in * by lia.
      assert (z = 0).
      { apply (f_equal (@length _)) in Hz. rewrite app_length, length_zeros in Hz. cbn [app length] in Hz.
        destruct f; cbn [chunks_fuel map concat length] in Hz; lia. }
      subst z. split; [|cbn [length]; lia]. unfold pad_to. change ([] ++ zeros 0) with (zeros 0). rewrite <- app_assoc, zeros_app. reflexivity.
Qed.

Lemma concat_padded_chunks k l : 0 < k ->
  exists z, concat (map (pad_to k) (chunks k l)) = l ++ zeros z /\ z < k.
Proof. intros Hk. apply concat_padded_chunks_fuel; [exact Hk|lia]. Qed.

(* number of chunks *)
Lemma length_chunks_fuel : forall f k l, 0 < k -> length l <= f ->
  length (chunks_fuel f k l) = (length l + k - 1) / k.
Proof.
  induction f as [|f IH]; intros k l Hk Hl.
  - destruct l; [|cbn in Hl; lia]. cbn [chunks_fuel length].
    symmetry. apply Nat.div_small. lia.
  - destruct l as [|x l].
    + cbn [chunks_fuel length]. symmetry. apply Nat.div_small. lia.
    + cbn [chunks_fuel].
      change (length (firstn k (x :: l) :: chunks_fuel f k (skipn k (x :: l))))
        with (S (length (chunks_fuel f k (skipn k (x :: l))))).
      rewrite IH; [|exact Hk|rewrite skipn_length; cbn [length] in *; lia].
      rewrite skipn_length. set (n := length (x :: l)) in *. assert (0 < n) by (unfold n; cbn [length]; lia).
      destruct (Nat.le_gt_cases n k) as [Hle|Hgt].
      * replace (n - k) with 0 by lia. replace ((0 + k - 1) / k) with 0 by (symmetry; apply Nat.div_small; lia).
        assert (n + k - 1 = 1 * k + (n - 1)) by lia.
        rewrite H0. rewrite Nat.div_add_l by lia. rewrite (Nat.div_small (n - 1)) by lia. lia.
      * replace (n + k - 1) with (1 * k + (n - k + k - 1)) by lia.
        rewrite Nat.div_add_l by lia. lia.
Qed.

Lemma length_chunks k l : 0 < k -> length (chunks k l) = (length l + k - 1) / k.
Proof. intros Hk. apply length_chunks_fuel; [exact Hk|lia]. Qed.

(* ---- header lemmas: a share ns ++ [info] ++ body ---- *)
Section Hdr.
  Variables (ns body : bytes) (i : byte).
  Hypothesis Hns : length ns = 29.
  Let s := ns ++ [i] ++ body.
  Lemma hdr_ns : sh_ns s = ns.
  Proof using Hns.
    unfold sh_ns, s. rewrite firstn_app, Hns, Nat.sub_diag. rewrite firstn_all2 by lia.
    rewrite firstn_O. apply app_nil_r.
  Qed.
  Lemma hdr_info : sh_info s = i.
  Proof using Hns. unfold sh_info, s. rewrite app_nth2 by lia. rewrite Hns, Nat.sub_diag. reflexivity. Qed.
  Lemma hdr_skip k : skipn (30 + k) s = skipn k body.
  Proof using Hns.
    unfold s. rewrite skipn_app, Hns. rewrite skipn_all2 by lia. cbn [app].
    replace (30 + k - 29) with (S k) by lia. rewrite skipn_cons. reflexivity.
  Qed.
  Lemma hdr_skip30 : skipn 30 s = body.
  Proof using Hns. exact (hdr_skip 0). Qed.
  Lemma hdr_skip34 : skipn 34 s = skipn 4 body.
  Proof using Hns. exact (hdr_skip 4). Qed.
  Lemma hdr_skip38 : skipn 38 s = skipn 8 body.
  Proof using Hns. exact (hdr_skip 8). Qed.
  Lemma hdr_skip54 : skipn 54 s = skipn 24 body.
  Proof using Hns. exact (hdr_skip 24). Qed.
  Lemma hdr_length : length s = 30 + length body.
  Proof using Hns. unfold s. rewrite !app_length, Hns. cbn [length]. lia. Qed.
End Hdr.

Lemma info_of_version ver st : (ver <= 127)%N -> info_version (info_of ver st) = ver.
Proof.
  intros H. unfold info_version, info_of. rewrite b2n_n2b by (destruct st; lia).
  destruct st; lia.
Qed.

Lemma info_of_start ver st : (ver <= 127)%N -> info_start (info_of ver st) = st.
Proof.
  intros H. unfold info_start, info_of. rewrite b2n_n2b by (destruct st; lia).
  destruct st.
  - rewrite N.add_comm. rewrite N.odd_add_mul_2. reflexivity.
  - rewrite N.add_0_r. rewrite N.odd_mul, N.odd_2. reflexivity.
Qed.

Lemma new_info_byte_ok ver st : (ver <= 127)%N -> new_info_byte ver st = Ok (info_of ver st).
Proof.
  intros H. unfold new_info_byte, max_share_version. replace (127 <? ver)%N with false by lia. reflexivity.
Qed.
