package fn

// ---- conversions between all widths and signednesses

func ConvFromI(x int) (int64, uint64, uint32, uint8, uint) {
	return int64(x), uint64(x), uint32(x), uint8(x), uint(x)
}
func ConvFromI64(x int64) (int, uint64, uint32, uint8) {
	return int(x), uint64(x), uint32(x), uint8(x)
}
func ConvFromU64(x uint64) (int, int64, uint32, uint8, byte) {
	return int(x), int64(x), uint32(x), uint8(x), byte(x)
}
func ConvFromU32(x uint32) (int, int64, uint64, uint8) {
	return int(x), int64(x), uint64(x), uint8(x)
}
func ConvFromU8(x uint8) (int, int64, uint64, uint32) {
	return int(x), int64(x), uint64(x), uint32(x)
}
func ConvChain(x int) int {
	return int(uint8(uint32(uint64(x)+1)+1)+1) - int(int64(uint64(x)>>1))
}
func ConvThenOp(x int, y uint32) uint64 {
	return uint64(uint32(x)*y) + uint64(x)*uint64(y)
}
func ConvSignExtend(x uint8, y uint32) (int, int64) {
	return -int(x), -int64(y) - int64(x)
}
