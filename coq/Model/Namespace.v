(* share/namespace.go and the reserved namespaces of share/consts.go *)
From GS.Model Require Import Base.
Open Scope N_scope.

Definition ns_size : nat := 29.
Definition ns_id_size : nat := 28.

(* a namespace is its 29 bytes: version byte followed by the 28 byte id *)
Definition namespace := bytes.

Definition xFF : byte := Byte.xff.

Definition primary_reserved_ns (last : byte) : namespace :=
  Byte.x00 :: (repeat Byte.x00 27 ++ [last]).
Definition secondary_reserved_ns (last : byte) : namespace :=
  xFF :: (repeat xFF 27 ++ [last]).

Definition tx_ns : namespace := primary_reserved_ns Byte.x01.
Definition isr_ns : namespace := primary_reserved_ns Byte.x02.
Definition pfb_ns : namespace := primary_reserved_ns Byte.x04.
Definition primary_reserved_padding_ns : namespace := primary_reserved_ns xFF.
Definition max_primary_reserved_ns : namespace := primary_reserved_ns xFF.
Definition min_secondary_reserved_ns : namespace := secondary_reserved_ns Byte.x00.
Definition tail_padding_ns : namespace := secondary_reserved_ns Byte.xfe.
Definition parity_ns : namespace := secondary_reserved_ns xFF.

Definition ns_version (n : namespace) : N := match n with b :: _ => b2n b | [] => 0 end.
Definition ns_id (n : namespace) : bytes := tl n.

(* Namespace.Compare = bytes.Compare as -1 / 0 / 1 *)
Definition ns_compare (a b : namespace) : Z :=
  match bytes_cmp a b with Lt => (-1)%Z | Eq => 0%Z | Gt => 1%Z end.
Definition ns_equals (a b : namespace) : bool := bytes_eqb a b.
Definition ns_lt (a b : namespace) : bool := Z.eqb (ns_compare a b) (-1).
Definition ns_le (a b : namespace) : bool := Z.ltb (ns_compare a b) 1.
Definition ns_gt (a b : namespace) : bool := Z.eqb (ns_compare a b) 1.
Definition ns_ge (a b : namespace) : bool := Z.ltb (-1) (ns_compare a b).

Definition is_primary_reserved (n : namespace) : bool := ns_le n max_primary_reserved_ns.
Definition is_secondary_reserved (n : namespace) : bool := ns_ge n min_secondary_reserved_ns.
Definition is_reserved (n : namespace) : bool := is_primary_reserved n || is_secondary_reserved n.
Definition is_parity (n : namespace) : bool := ns_equals n parity_ns.
Definition is_tail_padding (n : namespace) : bool := ns_equals n tail_padding_ns.
Definition is_primary_reserved_padding (n : namespace) : bool := ns_equals n primary_reserved_padding_ns.
Definition is_tx (n : namespace) : bool := ns_equals n tx_ns.
Definition is_pfb (n : namespace) : bool := ns_equals n pfb_ns.
Definition is_usable (n : namespace) : bool := negb (is_parity n) && negb (is_tail_padding n).

(* ValidateForData / ValidateForBlob: true = nil error *)
Definition validate_for_data (n : namespace) : bool := is_usable n.
Definition validate_for_blob (n : namespace) : bool :=
  validate_for_data n && negb (is_reserved n) && (ns_version n =? 0).

(* validate(): version supported and id well formed.  [n] is version :: id. *)
Definition ns_validate (n : namespace) : bool :=
  let v := ns_version n in
  ((v =? 0) || (v =? 255)) &&
  Nat.eqb (length (ns_id n)) ns_id_size &&
  (negb (v =? 0) || has_prefix (repeat Byte.x00 18) (ns_id n)).

(* NewNamespace(version uint8, id) *)
Definition new_namespace (version : N) (id : bytes) : outcome namespace :=
  let n := n2b version :: id in
  if ns_validate n then Ok n else Err.

(* NewNamespaceFromBytes *)
Definition new_namespace_from_bytes (b : bytes) : outcome namespace :=
  if Nat.eqb (length b) ns_size then (if ns_validate b then Ok b else Err) else Err.

(* NewV0Namespace(subID) *)
Definition new_v0_namespace (sub : bytes) : outcome namespace :=
  if Nat.ltb 10 (length sub) then Err
  else new_namespace_from_bytes (repeat Byte.x00 (ns_size - length sub) ++ sub).

(* AddInt: the literal byte-wise loop of the Go code, least significant byte
   first.  [nn] and [vv] are the namespace and the 29-byte big-endian magnitude
   of the addend, both reversed. *)
Fixpoint add_loop (pos : bool) (nn vv : bytes) (carry : Z) : bytes * Z :=
  match nn, vv with
  | a :: nn', b :: vv' =>
    let sum := (if pos then Z.of_N (b2n a) + Z.of_N (b2n b) + carry
                else Z.of_N (b2n a) - Z.of_N (b2n b) + carry)%Z in
    let '(digit, carry') :=
      (if 255 <? sum then (sum - 256, 1)
       else if sum <? 0 then (sum + 256, -1)
       else (sum, 0))%Z in
    let '(rest, c) := add_loop pos nn' vv' carry' in
    (n2b (Z.to_N digit) :: rest, c)
  | _, _ => ([], carry)
  end.

(* val is a Go int: -2^63 <= val < 2^63; uint64(-val) is |val| also for minInt *)
Definition add_int (n : namespace) (val : Z) : outcome namespace :=
  if Z.eqb val 0 then Ok n else
  if negb (Nat.eqb (length n) ns_size) then Fault (* nn[i] out of range *) else
  let mag := repeat Byte.x00 21 ++ be64 (Z.to_N (Z.abs val)) in
  let '(res, carry) := add_loop (Z.ltb 0 val) (rev n) (rev mag) 0%Z in
  if Z.eqb carry 0 then Ok (rev res) else Err.
