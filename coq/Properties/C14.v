(* C14 - Incremental APIs are history-independent.  Statements only.
   Compact share splitter half (the builder half follows below / in the merged file). *)
From Coq Require Import List NArith.
From GS.Model Require Import Base Varint Namespace ShareFmt Compact.
From GS.Proofs Require Import SplitterHistoryProofs.
Import ListNotations.

(* Histories over {WriteTx, Export, Count} on a compact share splitter:
     sop  := SWrite tx | SExport | SCount
     step c (SWrite tx) = cs_write_tx c tx
     step c SExport     = the state left behind by cs_export c
     step c SCount      = c            (Count does not modify the splitter)
     run c ops          = left-to-right fold of step, stopping at the first error
     writes_of ops      = the transactions written, in order. *)

(* The shares finally exported depend only on the transactions written; so do the recorded
   share ranges and Count. *)
Theorem C14_splitter_history_independent : forall ns ops c0 c1 c2 x1 x2 shs1 shs2,
  ns = tx_ns \/ ns = pfb_ns ->
  new_csplitter ns 0 = Ok c0 ->
  run c0 ops = Ok c1 -> cs_export c1 = Ok (x1, shs1) ->
  run c0 (map SWrite (writes_of ops)) = Ok c2 -> cs_export c2 = Ok (x2, shs2) ->
  shs1 = shs2 /\ cs_ranges c1 = cs_ranges c2 /\ cs_count c1 = cs_count c2.
Proof. exact splitter_history_independent. Qed.
Print Assumptions C14_splitter_history_independent.

(* Stronger: if the writes alone succeed then every interleaving of them with exports and
   counts succeeds as well, both final exports succeed and return the same shares, and
   ranges and Count agree (any 29-byte namespace, any share version). *)
Theorem C14_splitter_history_total : forall ns ver ops c0 c2,
  length ns = 29%nat ->
  new_csplitter ns ver = Ok c0 ->
  run c0 (map SWrite (writes_of ops)) = Ok c2 ->
  exists c1 x1 x2 shs,
    run c0 ops = Ok c1 /\
    cs_export c1 = Ok (x1, shs) /\ cs_export c2 = Ok (x2, shs) /\
    cs_ranges c1 = cs_ranges c2 /\ cs_count c1 = cs_count c2.
Proof. exact splitter_history_total. Qed.
Print Assumptions C14_splitter_history_total.

(* Conversely, from any splitter state that has not just been exported: if the interleaved
   history and its final Export succeed, the writes alone and their final Export succeed
   and give the same shares, ranges and Count.  Applied to a prefix of a history this says
   that every intermediate Export returns what the writes so far would export. *)
Theorem C14_splitter_history_general : forall ops c0 c1 x1 shs1,
  cs_done c0 = false ->
  run c0 ops = Ok c1 -> cs_export c1 = Ok (x1, shs1) ->
  exists c2 x2, run c0 (map SWrite (writes_of ops)) = Ok c2 /\
    cs_export c2 = Ok (x2, shs1) /\ cs_ranges c1 = cs_ranges c2 /\ cs_count c1 = cs_count c2.
Proof. exact splitter_history_general. Qed.
Print Assumptions C14_splitter_history_general.

(* the patching fact the proof rests on: a later sequence-length patch of the first share
   overwrites an earlier one *)
Theorem C14_sequence_length_patch_idempotent : forall v w s,
  length v = 4%nat -> length w = 4%nat -> (34 <= length s)%nat ->
  set_at 30 v (set_at 30 w s) = set_at 30 v s.
Proof. exact set_at_30_twice. Qed.
Print Assumptions C14_sequence_length_patch_idempotent.

(* ---- non-vacuity: concrete histories meeting all premises ---- *)

(* write 10 B; export (pads the partially filled first share); count; write 472 B (crosses
   into share 1); export twice; write 600 B; export.  Three shares; the interleaved state
   is in the exported state while the writes-only one is not. *)
Definition ex_ops1 : list sop :=
  [SWrite (repeat Byte.x61 10); SExport; SCount; SWrite (repeat Byte.x62 472); SExport; SExport;
   SWrite (repeat Byte.x63 600); SExport].

Example C14_splitter_example_partial_fill :
  match new_csplitter tx_ns 0 with
  | Ok c0 =>
    match run c0 ex_ops1, run c0 (map SWrite (writes_of ex_ops1)) with
    | Ok c1, Ok c2 =>
      match cs_export c1, cs_export c2 with
      | Ok (_, s1), Ok (_, s2) =>
        length s1 = 3%nat /\ s1 = s2 /\ cs_done c1 = true /\ cs_done c2 = false /\
        map snd (cs_ranges c1) = [(1, 3); (0, 2); (0, 1)]%N /\ cs_ranges c1 = cs_ranges c2
      | _, _ => False
      end
    | _, _ => False
    end
  | _ => False
  end.
Proof. vm_compute. repeat split. Qed.

(* exports on the empty splitter; a transaction whose delimited length (472 + 2) fills the
   first share exactly; export; a small write; export; in the PFB namespace *)
Definition ex_ops2 : list sop :=
  [SExport; SCount; SExport; SWrite (repeat Byte.x61 472); SExport; SWrite (repeat Byte.x62 10);
   SCount; SExport; SWrite (repeat Byte.x63 1)].

Example C14_splitter_example_exact_fill :
  match new_csplitter pfb_ns 0 with
  | Ok c0 =>
    match run c0 ex_ops2, run c0 (map SWrite (writes_of ex_ops2)) with
    | Ok c1, Ok c2 =>
      match cs_export c1, cs_export c2 with
      | Ok (_, s1), Ok (_, s2) =>
        length s1 = 2%nat /\ s1 = s2 /\
        map snd (cs_ranges c1) = [(1, 2); (1, 2); (0, 1)]%N /\ cs_ranges c1 = cs_ranges c2
      | _, _ => False
      end
    | _, _ => False
    end
  | _ => False
  end.
Proof. vm_compute. repeat split. Qed.
